#!/bin/bash
# Runs the repository's pinned baseline suite (42 tests) in /repo (or $1) and prints a one-line summary.
dir="${1:-/repo}"
cd "$dir" && CARGO_NET_OFFLINE=true cargo nextest run --workspace --no-fail-fast --test-threads 8 --offline 2>&1 | grep -E "Summary|FAIL|error(\[|:)|SIGABRT|SIGSEGV" | head -20
