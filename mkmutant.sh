#!/bin/bash
# ./mkmutant.sh <name>   save /repo's current working-tree diff as mutants/<name>.patch and revert /repo
set -e
git -C /repo diff > /verif/mutants/$1.patch
[ -s /verif/mutants/$1.patch ] || { echo "empty diff"; exit 1; }
git -C /repo checkout -- .
echo "saved mutants/$1.patch ($(grep -c '^[-+][^-+]' /verif/mutants/$1.patch) changed lines)"
