#!/bin/bash
# ./recheck_seeded.sh [tier] [glob]  — apply every stored seeded change to /repo in turn, run the check(s) that
# should catch it, revert; writes /verif/seeded/<id>/recheck.log and prints a summary table.
tier="${1:-quick}"
cd /verif
git -C /repo diff --quiet || { echo "/repo dirty"; exit 2; }
declare -A EXTRA=( [C13-a1]="C08" [C07-a1]="C06" )
pat="${2:-*}"
for d in seeded/$pat/; do
  id=$(basename $d); prop=${id%%-*}
  [ -f $d/patch.diff ] || continue
  if ! git -C /repo apply /verif/$d/patch.diff 2>/dev/null; then echo "$id: patch does not apply to current /repo HEAD"; continue; fi
  res=""
  for p in $prop ${EXTRA[$id]:-}; do
    timeout 1500 ./check $p $tier > /tmp/recheck.out 2>&1 < /dev/null; rc=$?
    keys=$(grep -oE "^violation C[0-9]+ \[[^]]*\]" /tmp/recheck.out | sed 's/^violation //' | head -3 | tr '\n' ' ')
    res="$res $p:exit=$rc $keys"
  done
  git -C /repo checkout -q -- .
  echo "$id:$res" | tee $d/recheck.log
done
rm -f /tmp/recheck.out
