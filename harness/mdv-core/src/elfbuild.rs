//! Small ELF image builder (64/32-bit, LE/BE) with the same layout as the crate's `TINY_ELF`
//! test fixture, plus a table of every header field for structure-aware mutation.

#[derive(Clone, Debug)]
pub struct Field {
    pub name: String,
    pub offset: usize,
    pub width: usize,
}

#[derive(Clone, Debug)]
pub struct Built {
    pub bytes: Vec<u8>,
    pub fields: Vec<Field>,
    pub is64: bool,
    pub be: bool,
    pub build_id: Option<Vec<u8>>,
    pub soname: Option<String>,
    pub text: Vec<u8>,
}

#[derive(Clone, Debug)]
pub struct Spec {
    pub is64: bool,
    pub be: bool,
    pub pt_note: bool,
    pub section_note: bool,
    pub soname: Option<String>,
    pub build_id: Vec<u8>,
    /// virtual address base (0 = PIE/shared-object style: vaddr == file offset)
    pub vbase: u64,
    /// emit section headers at all
    pub sections: bool,
    /// size of the text blob
    pub text_len: usize,
    /// note alignment (4 or 8)
    pub note_align: u64,
    /// put a GNU ABI-tag note (type 1) in front of the build-id note
    pub abi_note_first: bool,
    /// if non-zero: .dynstr and .text live in a second PT_LOAD whose vaddr = file offset + delta
    /// (what patchelf produces); DT_STRTAB then differs from the file offset
    pub split_load_delta: u64,
    /// an allocated, non-executable PROGBITS section (.rodata) placed before .text
    pub rodata_first: bool,
    /// zero padding in the FILE in front of .dynstr (only with a split load): lets the second PT_LOAD
    /// have a file offset larger than its virtual address
    pub dynstr_pad: usize,
    /// with a split load: vaddr = file offset - delta instead of + delta (needs dynstr_pad >= delta)
    pub split_load_neg: bool,
    /// extra (empty, non-allocated) sections whose names merely END in the names the readers look for
    /// (`.orig.note.gnu.build-id`, `.old.dynstr`), stored in front of the real ones in .shstrtab
    pub decoy_names: bool,
}

impl Default for Spec {
    fn default() -> Self {
        Spec {
            is64: true,
            be: false,
            pt_note: true,
            section_note: true,
            soname: Some("libfoo.so.1".into()),
            build_id: (1..=16).collect(),
            vbase: 0,
            sections: true,
            text_len: 7,
            note_align: 4,
            abi_note_first: false,
            split_load_delta: 0,
            dynstr_pad: 0,
            split_load_neg: false,
            decoy_names: false,
            rodata_first: false,
        }
    }
}

struct W {
    b: Vec<u8>,
    be: bool,
    fields: Vec<Field>,
}

impl W {
    fn put(&mut self, name: &str, width: usize, v: u64) {
        self.fields.push(Field { name: name.to_string(), offset: self.b.len(), width });
        let bytes = v.to_le_bytes();
        let mut s = bytes[..width].to_vec();
        if self.be {
            s.reverse();
        }
        self.b.extend_from_slice(&s);
    }
    fn raw(&mut self, d: &[u8]) {
        self.b.extend_from_slice(d);
    }
    fn align(&mut self, a: usize) {
        while self.b.len() % a != 0 {
            self.b.push(0);
        }
    }
}

pub fn write_field(bytes: &mut [u8], f: &Field, be: bool, v: u64) {
    let le = v.to_le_bytes();
    let mut s = le[..f.width].to_vec();
    if be {
        s.reverse();
    }
    bytes[f.offset..f.offset + f.width].copy_from_slice(&s);
}

pub fn read_field(bytes: &[u8], f: &Field, be: bool) -> u64 {
    let mut s = bytes[f.offset..f.offset + f.width].to_vec();
    if be {
        s.reverse();
    }
    let mut le = [0u8; 8];
    le[..f.width].copy_from_slice(&s);
    u64::from_le_bytes(le)
}

pub fn build(spec: &Spec) -> Built {
    let is64 = spec.is64;
    let ws = if is64 { 8 } else { 4 };
    let ehsize = if is64 { 64 } else { 52 };
    let phentsize = if is64 { 56 } else { 32 };
    let shentsize = if is64 { 64 } else { 40 };
    let nph = 1 + spec.pt_note as usize + 1 + (spec.split_load_delta != 0) as usize; // LOAD, [LOAD2], [NOTE], DYNAMIC
    let shnames: Vec<&str> = if spec.sections {
        let mut v = vec![""];
        if spec.rodata_first {
            v.push(".rodata");
        }
        v.push(".text");
        if spec.decoy_names {
            v.push(".orig.note.gnu.build-id");
        }
        if spec.section_note {
            v.push(".note.gnu.build-id");
        }
        v.extend([".shstrtab", ".dynamic"]);
        if spec.decoy_names {
            v.push(".old.dynstr");
        }
        v.push(".dynstr");
        v
    } else {
        vec![]
    };
    let nsh = shnames.len();
    // ---- plan the layout
    let phoff = ehsize;
    let shoff = phoff + nph * phentsize;
    let mut cur = shoff + nsh * shentsize;
    let al = |x: usize, a: usize| (x + a - 1) / a * a;
    // note
    let na = spec.note_align as usize;
    cur = al(cur, na.max(4));
    let note_off = cur;
    let abi_len = if spec.abi_note_first { 12 + al(4, na) + al(16, na) } else { 0 };
    let note_len = abi_len + 12 + al(4, na) + al(spec.build_id.len(), na);
    cur += note_len;
    // shstrtab
    let shstr_off = cur;
    let mut shstr = vec![0u8];
    let mut name_offs = vec![0usize; nsh];
    for (i, n) in shnames.iter().enumerate().skip(1) {
        name_offs[i] = shstr.len();
        shstr.extend_from_slice(n.as_bytes());
        shstr.push(0);
    }
    cur += shstr.len();
    // dynamic
    cur = al(cur, ws);
    let dyn_off = cur;
    let ndyn = 2 + spec.soname.is_some() as usize + 1; // [SONAME], STRTAB, STRSZ, NULL
    let dyn_len = ndyn * 2 * ws;
    cur += dyn_len;
    let pad_start = cur;
    cur += spec.dynstr_pad;
    // dynstr
    let dynstr_off = cur;
    let mut dynstr = vec![0u8];
    let soname_off = dynstr.len();
    if let Some(s) = &spec.soname {
        dynstr.extend_from_slice(s.as_bytes());
        dynstr.push(0);
    }
    cur += dynstr.len();
    // rodata
    let rodata_off = cur;
    let rodata: Vec<u8> = if spec.rodata_first { (0..48).map(|i| 0xC0u8.wrapping_add(i * 5)).collect() } else { vec![] };
    cur += rodata.len();
    // text
    let text_off = cur;
    let text: Vec<u8> = (0..spec.text_len).map(|i| (0x6a + i * 29) as u8).collect();
    cur += text.len();
    let total = cur;
    let va = |o: usize| spec.vbase + o as u64;

    // ---- emit
    let mut w = W { b: Vec::with_capacity(total), be: spec.be, fields: Vec::new() };
    w.raw(&[0x7f, b'E', b'L', b'F', if is64 { 2 } else { 1 }, if spec.be { 2 } else { 1 }, 1, 0, 0, 0, 0, 0, 0, 0, 0, 0]);
    w.fields.push(Field { name: "e_ident[EI_CLASS]".into(), offset: 4, width: 1 });
    w.fields.push(Field { name: "e_ident[EI_DATA]".into(), offset: 5, width: 1 });
    w.fields.push(Field { name: "e_ident[EI_VERSION]".into(), offset: 6, width: 1 });
    w.put("e_type", 2, if spec.vbase == 0 { 3 } else { 2 });
    w.put("e_machine", 2, if is64 { 62 } else { 3 });
    w.put("e_version", 4, 1);
    w.put("e_entry", ws, va(text_off));
    w.put("e_phoff", ws, phoff as u64);
    w.put("e_shoff", ws, if nsh > 0 { shoff as u64 } else { 0 });
    w.put("e_flags", 4, 0);
    w.put("e_ehsize", 2, ehsize as u64);
    w.put("e_phentsize", 2, phentsize as u64);
    w.put("e_phnum", 2, nph as u64);
    w.put("e_shentsize", 2, shentsize as u64);
    w.put("e_shnum", 2, nsh as u64);
    w.put("e_shstrndx", 2, if nsh > 0 { shnames.iter().position(|n| *n == ".shstrtab").unwrap() as u64 } else { 0 });
    assert_eq!(w.b.len(), ehsize);
    let mut ph = |w: &mut W, tag: &str, ty: u64, flags: u64, off: usize, filesz: usize, align: u64| {
        if is64 {
            w.put(&format!("{tag}.p_type"), 4, ty);
            w.put(&format!("{tag}.p_flags"), 4, flags);
            w.put(&format!("{tag}.p_offset"), 8, off as u64);
            w.put(&format!("{tag}.p_vaddr"), 8, va(off));
            w.put(&format!("{tag}.p_paddr"), 8, va(off));
            w.put(&format!("{tag}.p_filesz"), 8, filesz as u64);
            w.put(&format!("{tag}.p_memsz"), 8, filesz as u64);
            w.put(&format!("{tag}.p_align"), 8, align);
        } else {
            w.put(&format!("{tag}.p_type"), 4, ty);
            w.put(&format!("{tag}.p_offset"), 4, off as u64);
            w.put(&format!("{tag}.p_vaddr"), 4, va(off));
            w.put(&format!("{tag}.p_paddr"), 4, va(off));
            w.put(&format!("{tag}.p_filesz"), 4, filesz as u64);
            w.put(&format!("{tag}.p_memsz"), 4, filesz as u64);
            w.put(&format!("{tag}.p_flags"), 4, flags);
            w.put(&format!("{tag}.p_align"), 4, align);
        }
    };
    if spec.split_load_delta != 0 {
        ph(&mut w, "ph_load", 1, 7, 0, if spec.dynstr_pad > 0 { pad_start } else { dynstr_off }, 0x1000);
        // second segment: file offset dynstr_off, vaddr shifted by delta (up, or down when split_load_neg)
        let d = if spec.split_load_neg { spec.split_load_delta.wrapping_neg() } else { spec.split_load_delta };
        if is64 {
            w.put("ph_load2.p_type", 4, 1);
            w.put("ph_load2.p_flags", 4, 5);
            w.put("ph_load2.p_offset", 8, dynstr_off as u64);
            w.put("ph_load2.p_vaddr", 8, va(dynstr_off).wrapping_add(d));
            w.put("ph_load2.p_paddr", 8, va(dynstr_off).wrapping_add(d));
            w.put("ph_load2.p_filesz", 8, (total - dynstr_off) as u64);
            w.put("ph_load2.p_memsz", 8, (total - dynstr_off) as u64);
            w.put("ph_load2.p_align", 8, 0x1000);
        } else {
            w.put("ph_load2.p_type", 4, 1);
            w.put("ph_load2.p_offset", 4, dynstr_off as u64);
            w.put("ph_load2.p_vaddr", 4, va(dynstr_off).wrapping_add(d));
            w.put("ph_load2.p_paddr", 4, va(dynstr_off).wrapping_add(d));
            w.put("ph_load2.p_filesz", 4, (total - dynstr_off) as u64);
            w.put("ph_load2.p_memsz", 4, (total - dynstr_off) as u64);
            w.put("ph_load2.p_flags", 4, 5);
            w.put("ph_load2.p_align", 4, 0x1000);
        }
    } else {
        ph(&mut w, "ph_load", 1, 7, 0, total, 0x1000);
    }
    if spec.pt_note {
        ph(&mut w, "ph_note", 4, 4, note_off, note_len, spec.note_align);
    }
    ph(&mut w, "ph_dynamic", 2, 4, dyn_off, dyn_len, ws as u64);
    assert_eq!(w.b.len(), shoff);
    let mut sh = |w: &mut W, tag: &str, name: usize, ty: u64, flags: u64, off: usize, size: usize, link: u64, align: u64| {
        if is64 {
            w.put(&format!("{tag}.sh_name"), 4, name as u64);
            w.put(&format!("{tag}.sh_type"), 4, ty);
            w.put(&format!("{tag}.sh_flags"), 8, flags);
            w.put(&format!("{tag}.sh_addr"), 8, if off == 0 { 0 } else { va(off) });
            w.put(&format!("{tag}.sh_offset"), 8, off as u64);
            w.put(&format!("{tag}.sh_size"), 8, size as u64);
            w.put(&format!("{tag}.sh_link"), 4, link);
            w.put(&format!("{tag}.sh_info"), 4, 0);
            w.put(&format!("{tag}.sh_addralign"), 8, align);
            w.put(&format!("{tag}.sh_entsize"), 8, 0);
        } else {
            w.put(&format!("{tag}.sh_name"), 4, name as u64);
            w.put(&format!("{tag}.sh_type"), 4, ty);
            w.put(&format!("{tag}.sh_flags"), 4, flags);
            w.put(&format!("{tag}.sh_addr"), 4, if off == 0 { 0 } else { va(off) });
            w.put(&format!("{tag}.sh_offset"), 4, off as u64);
            w.put(&format!("{tag}.sh_size"), 4, size as u64);
            w.put(&format!("{tag}.sh_link"), 4, link);
            w.put(&format!("{tag}.sh_info"), 4, 0);
            w.put(&format!("{tag}.sh_addralign"), 4, align);
            w.put(&format!("{tag}.sh_entsize"), 4, 0);
        }
    };
    if nsh > 0 {
        let dynstr_idx = shnames.iter().position(|n| *n == ".dynstr").unwrap() as u64;
        for (i, n) in shnames.iter().enumerate() {
            match *n {
                "" => sh(&mut w, "sh_null", 0, 0, 0, 0, 0, 0, 0),
                ".rodata" => sh(&mut w, "sh_rodata", name_offs[i], 1, 2, rodata_off, rodata.len(), 0, 8),
                ".text" => sh(&mut w, "sh_text", name_offs[i], 1, 6, text_off, text.len(), 0, 16),
                ".note.gnu.build-id" => sh(&mut w, "sh_note", name_offs[i], 7, 2, note_off, note_len, 0, spec.note_align),
                ".shstrtab" => sh(&mut w, "sh_shstrtab", name_offs[i], 3, 0, shstr_off, shstr.len(), 0, 1),
                ".dynamic" => sh(&mut w, "sh_dynamic", name_offs[i], 6, 3, dyn_off, dyn_len, dynstr_idx, ws as u64),
                ".dynstr" => sh(&mut w, "sh_dynstr", name_offs[i], 3, 2, dynstr_off, dynstr.len(), 0, 1),
                ".orig.note.gnu.build-id" => sh(&mut w, "sh_decoy_note", name_offs[i], 1, 0, text_off, 0, 0, 1),
                ".old.dynstr" => sh(&mut w, "sh_decoy_dynstr", name_offs[i], 1, 0, text_off, 0, 0, 1),
                _ => unreachable!(),
            }
        }
    }
    w.align(na.max(4));
    assert_eq!(w.b.len(), note_off);
    if spec.abi_note_first {
        w.put("abinote.n_namesz", 4, 4);
        w.put("abinote.n_descsz", 4, 16);
        w.put("abinote.n_type", 4, 1);
        w.raw(b"GNU\0");
        w.align(na);
        w.raw(&[0xAA; 16]);
        w.align(na);
    }
    w.put("note.n_namesz", 4, 4);
    w.put("note.n_descsz", 4, spec.build_id.len() as u64);
    w.put("note.n_type", 4, 3);
    w.raw(b"GNU\0");
    w.align(na);
    w.raw(&spec.build_id);
    while w.b.len() < note_off + note_len {
        w.b.push(0);
    }
    assert_eq!(w.b.len(), shstr_off);
    w.raw(&shstr);
    w.align(ws);
    assert_eq!(w.b.len(), dyn_off);
    if spec.soname.is_some() {
        w.put("dyn_soname.d_tag", ws, 14);
        w.put("dyn_soname.d_val", ws, soname_off as u64);
    }
    w.put("dyn_strtab.d_tag", ws, 5);
    w.put("dyn_strtab.d_val", ws, va(dynstr_off).wrapping_add(if spec.split_load_neg { spec.split_load_delta.wrapping_neg() } else { spec.split_load_delta }));
    w.put("dyn_strsz.d_tag", ws, 10);
    w.put("dyn_strsz.d_val", ws, dynstr.len() as u64);
    w.put("dyn_null.d_tag", ws, 0);
    w.put("dyn_null.d_val", ws, 0);
    w.raw(&vec![0u8; spec.dynstr_pad]);
    assert_eq!(w.b.len(), dynstr_off);
    w.raw(&dynstr);
    w.raw(&rodata);
    assert_eq!(w.b.len(), text_off);
    w.raw(&text);
    assert_eq!(w.b.len(), total);
    Built {
        bytes: w.b,
        fields: w.fields,
        is64,
        be: spec.be,
        build_id: if spec.pt_note || (spec.section_note && spec.sections) { Some(spec.build_id.clone()) } else { None },
        soname: spec.soname.clone(),
        text,
    }
}
