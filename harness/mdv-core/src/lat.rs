//! LAT: deviation-bounded enumeration of input lattices.
//!
//! An input is a tuple of dimensions; dimension `i` has `sizes[i]` letters, letter 0 being the
//! benign default. `lat(sizes, k, f)` calls `f` on every tuple that differs from the all-default
//! tuple in at most `k` dimensions, in order of increasing deviation count (0, then 1, then 2 ...),
//! so the first failing tuple has the fewest deviations.

pub fn lat(sizes: &[usize], k: usize, mut f: impl FnMut(&[usize])) -> u64 {
    let mut n = 0u64;
    let mut cur = vec![0usize; sizes.len()];
    for dev in 0..=k.min(sizes.len()) {
        rec(sizes, dev, 0, &mut cur, &mut f, &mut n);
    }
    n
}

fn rec(
    sizes: &[usize],
    remaining: usize,
    from: usize,
    cur: &mut Vec<usize>,
    f: &mut impl FnMut(&[usize]),
    n: &mut u64,
) {
    if remaining == 0 {
        f(cur);
        *n += 1;
        return;
    }
    if sizes.len() - from < remaining {
        return;
    }
    for pos in from..sizes.len() {
        for v in 1..sizes[pos] {
            cur[pos] = v;
            rec(sizes, remaining - 1, pos + 1, cur, f, n);
        }
        cur[pos] = 0;
    }
}

/// Full cartesian product.
pub fn product(sizes: &[usize], mut f: impl FnMut(&[usize])) -> u64 {
    if sizes.iter().any(|s| *s == 0) {
        return 0;
    }
    let mut cur = vec![0usize; sizes.len()];
    let mut n = 0;
    loop {
        f(&cur);
        n += 1;
        let mut i = sizes.len();
        loop {
            if i == 0 {
                return n;
            }
            i -= 1;
            cur[i] += 1;
            if cur[i] < sizes[i] {
                break;
            }
            cur[i] = 0;
        }
    }
}

#[cfg(test)]
mod t {
    use super::*;
    #[test]
    fn counts() {
        assert_eq!(lat(&[3, 3, 3], 0, |_| {}), 1);
        assert_eq!(lat(&[3, 3, 3], 1, |_| {}), 1 + 6);
        assert_eq!(lat(&[3, 3, 3], 2, |_| {}), 1 + 6 + 12);
        assert_eq!(lat(&[3, 3, 3], 3, |_| {}), 27);
        assert_eq!(product(&[2, 3, 4], |_| {}), 24);
    }
}
