//! Independent ELF32/64, LE/BE reader used as the oracle of C14 / C08.
//! Written from the ELF specification; shares no code with goblin or minidump-writer.

#[derive(Debug, Clone, Default)]
pub struct ElfRef {
    pub is64: bool,
    pub big_endian: bool,
    pub e_type: u16,
    pub phdrs: Vec<Phdr>,
    pub shdrs: Vec<Shdr>,
    /// GNU build-id note found through PT_NOTE segments (first one)
    pub note_from_phdr: Option<Vec<u8>>,
    /// GNU build-id note found through the `.note.gnu.build-id` section
    pub note_from_section: Option<Vec<u8>>,
    /// XOR-fold of the first <=4096 bytes of the first PROGBITS|ALLOC|EXECINSTR section
    pub text_fold: Option<[u8; 16]>,
    /// DT_SONAME through PT_DYNAMIC / DT_STRTAB (vaddr translated through PT_LOAD)
    pub soname_from_phdr: Option<String>,
    /// DT_SONAME through SHT_DYNAMIC / sh_link
    pub soname_from_section: Option<String>,
    /// reasons why this image is not considered well-formed (empty = well-formed)
    pub problems: Vec<String>,
}

#[derive(Debug, Clone, Default)]
pub struct Phdr {
    pub p_type: u32,
    pub p_flags: u32,
    pub p_offset: u64,
    pub p_vaddr: u64,
    pub p_filesz: u64,
    pub p_memsz: u64,
    pub p_align: u64,
}

#[derive(Debug, Clone, Default)]
pub struct Shdr {
    pub sh_name: u32,
    pub sh_type: u32,
    pub sh_flags: u64,
    pub sh_addr: u64,
    pub sh_offset: u64,
    pub sh_size: u64,
    pub sh_link: u32,
    pub sh_addralign: u64,
    pub name: Option<Vec<u8>>,
}

pub const PT_LOAD: u32 = 1;
pub const PT_DYNAMIC: u32 = 2;
pub const PT_NOTE: u32 = 4;
pub const SHT_PROGBITS: u32 = 1;
pub const SHT_STRTAB: u32 = 3;
pub const SHT_DYNAMIC: u32 = 6;
pub const SHT_NOTE: u32 = 7;
pub const SHT_NOBITS: u32 = 8;
pub const SHF_ALLOC: u64 = 2;
pub const SHF_EXECINSTR: u64 = 4;
pub const DT_NULL: u64 = 0;
pub const DT_STRTAB: u64 = 5;
pub const DT_STRSZ: u64 = 10;
pub const DT_SONAME: u64 = 14;
pub const NT_GNU_BUILD_ID: u32 = 3;

struct R<'a> {
    b: &'a [u8],
    be: bool,
}

impl<'a> R<'a> {
    fn get(&self, off: u64, len: u64) -> Option<&'a [u8]> {
        let end = off.checked_add(len)?;
        if end > self.b.len() as u64 {
            return None;
        }
        Some(&self.b[off as usize..end as usize])
    }
    fn u16(&self, off: u64) -> Option<u16> {
        let s = self.get(off, 2)?;
        Some(if self.be { u16::from_be_bytes([s[0], s[1]]) } else { u16::from_le_bytes([s[0], s[1]]) })
    }
    fn u32(&self, off: u64) -> Option<u32> {
        let s: [u8; 4] = self.get(off, 4)?.try_into().ok()?;
        Some(if self.be { u32::from_be_bytes(s) } else { u32::from_le_bytes(s) })
    }
    fn u64(&self, off: u64) -> Option<u64> {
        let s: [u8; 8] = self.get(off, 8)?.try_into().ok()?;
        Some(if self.be { u64::from_be_bytes(s) } else { u64::from_le_bytes(s) })
    }
    fn word(&self, off: u64, is64: bool) -> Option<u64> {
        if is64 {
            self.u64(off)
        } else {
            self.u32(off).map(|x| x as u64)
        }
    }
}

pub fn xor_fold(data: &[u8]) -> [u8; 16] {
    let mut out = [0u8; 16];
    for (i, b) in data.iter().enumerate() {
        out[i % 16] ^= *b;
    }
    out
}

fn cstr_at(b: &[u8], off: u64, limit: u64) -> Option<Vec<u8>> {
    let end = off.checked_add(limit)?.min(b.len() as u64);
    if off >= end {
        return None;
    }
    let s = &b[off as usize..end as usize];
    let n = s.iter().position(|c| *c == 0)?;
    Some(s[..n].to_vec())
}

/// Scan a note area for the first GNU build-id note. Returns Err on a malformed note.
fn scan_notes(r: &R, off: u64, size: u64, align: u64) -> Result<Option<Vec<u8>>, String> {
    let align = if align == 8 { 8 } else { 4 };
    let area = r.get(off, size).ok_or("note area out of bounds")?;
    let ar = R { b: area, be: r.be };
    let mut p = 0u64;
    while p + 12 <= size {
        let namesz = ar.u32(p).unwrap() as u64;
        let descsz = ar.u32(p + 4).unwrap() as u64;
        let ty = ar.u32(p + 8).unwrap();
        // offsets (not sizes) are aligned: ELF_NOTE_DESC_OFFSET = ALIGN_UP(sizeof(Nhdr) + namesz, align)
        let name_off = p + 12;
        let desc_off = name_off.checked_add(namesz).and_then(|x| x.checked_add(align - 1)).map(|x| x & !(align - 1)).ok_or("note overflow")?;
        let next = desc_off.checked_add(descsz).and_then(|x| x.checked_add(align - 1)).map(|x| x & !(align - 1)).ok_or("note overflow")?;
        let name = ar.get(name_off, namesz).ok_or("note name out of bounds")?;
        let desc = ar.get(desc_off, descsz).ok_or("note desc out of bounds")?;
        let next = next.min(size.max(desc_off + descsz));
        if ty == NT_GNU_BUILD_ID && name == b"GNU\0" {
            return Ok(Some(desc.to_vec()));
        }
        if next <= p {
            return Err("note does not advance".into());
        }
        p = next;
    }
    if p != size && size - p >= 12 {
        return Err("trailing garbage in note area".into());
    }
    Ok(None)
}

impl ElfRef {
    pub fn parse(b: &[u8]) -> Result<ElfRef, String> {
        if b.len() < 16 || &b[0..4] != b"\x7fELF" {
            return Err("not an ELF image".into());
        }
        let is64 = match b[4] {
            1 => false,
            2 => true,
            c => return Err(format!("bad EI_CLASS {c}")),
        };
        let be = match b[5] {
            1 => false,
            2 => true,
            c => return Err(format!("bad EI_DATA {c}")),
        };
        let r = R { b, be };
        let mut e = ElfRef { is64, big_endian: be, ..Default::default() };
        let hdr_size = if is64 { 64 } else { 52 };
        if b.len() < hdr_size {
            return Err("truncated ELF header".into());
        }
        e.e_type = r.u16(16).unwrap();
        let (phoff, shoff, phentsize, phnum, shentsize, shnum, shstrndx) = if is64 {
            (r.u64(32).unwrap(), r.u64(40).unwrap(), r.u16(54).unwrap(), r.u16(56).unwrap(), r.u16(58).unwrap(), r.u16(60).unwrap(), r.u16(62).unwrap())
        } else {
            (r.u32(28).unwrap() as u64, r.u32(32).unwrap() as u64, r.u16(42).unwrap(), r.u16(44).unwrap(), r.u16(46).unwrap(), r.u16(48).unwrap(), r.u16(50).unwrap())
        };
        let want_ph = if is64 { 56 } else { 32 };
        let want_sh = if is64 { 64 } else { 40 };
        // program headers
        if phoff != 0 && phnum != 0 {
            if phentsize != want_ph {
                e.problems.push(format!("e_phentsize {phentsize} != {want_ph}"));
            } else if r.get(phoff, phnum as u64 * want_ph as u64).is_none() {
                e.problems.push("program header table out of bounds".into());
            } else {
                for i in 0..phnum as u64 {
                    let o = phoff + i * want_ph as u64;
                    let ph = if is64 {
                        Phdr {
                            p_type: r.u32(o).unwrap(),
                            p_flags: r.u32(o + 4).unwrap(),
                            p_offset: r.u64(o + 8).unwrap(),
                            p_vaddr: r.u64(o + 16).unwrap(),
                            p_filesz: r.u64(o + 32).unwrap(),
                            p_memsz: r.u64(o + 40).unwrap(),
                            p_align: r.u64(o + 48).unwrap(),
                        }
                    } else {
                        Phdr {
                            p_type: r.u32(o).unwrap(),
                            p_offset: r.u32(o + 4).unwrap() as u64,
                            p_vaddr: r.u32(o + 8).unwrap() as u64,
                            p_filesz: r.u32(o + 16).unwrap() as u64,
                            p_memsz: r.u32(o + 20).unwrap() as u64,
                            p_flags: r.u32(o + 24).unwrap(),
                            p_align: r.u32(o + 28).unwrap() as u64,
                        }
                    };
                    e.phdrs.push(ph);
                }
            }
        }
        // section headers
        if shoff != 0 && shnum != 0 {
            if shentsize != want_sh {
                e.problems.push(format!("e_shentsize {shentsize} != {want_sh}"));
            } else if r.get(shoff, shnum as u64 * want_sh as u64).is_none() {
                e.problems.push("section header table out of bounds".into());
            } else {
                for i in 0..shnum as u64 {
                    let o = shoff + i * want_sh as u64;
                    let sh = if is64 {
                        Shdr {
                            sh_name: r.u32(o).unwrap(),
                            sh_type: r.u32(o + 4).unwrap(),
                            sh_flags: r.u64(o + 8).unwrap(),
                            sh_addr: r.u64(o + 16).unwrap(),
                            sh_offset: r.u64(o + 24).unwrap(),
                            sh_size: r.u64(o + 32).unwrap(),
                            sh_link: r.u32(o + 40).unwrap(),
                            sh_addralign: r.u64(o + 48).unwrap(),
                            name: None,
                        }
                    } else {
                        Shdr {
                            sh_name: r.u32(o).unwrap(),
                            sh_type: r.u32(o + 4).unwrap(),
                            sh_flags: r.u32(o + 8).unwrap() as u64,
                            sh_addr: r.u32(o + 12).unwrap() as u64,
                            sh_offset: r.u32(o + 16).unwrap() as u64,
                            sh_size: r.u32(o + 20).unwrap() as u64,
                            sh_link: r.u32(o + 24).unwrap(),
                            sh_addralign: r.u32(o + 32).unwrap() as u64,
                            name: None,
                        }
                    };
                    e.shdrs.push(sh);
                }
                // names
                if let Some(st) = e.shdrs.get(shstrndx as usize).cloned() {
                    if st.sh_type == SHT_STRTAB {
                        for sh in e.shdrs.iter_mut() {
                            if (sh.sh_name as u64) < st.sh_size {
                                sh.name = st
                                    .sh_offset
                                    .checked_add(sh.sh_name as u64)
                                    .and_then(|o| cstr_at(b, o, st.sh_size - sh.sh_name as u64));
                            }
                        }
                    } else {
                        e.problems.push("e_shstrndx is not a string table".into());
                    }
                } else {
                    e.problems.push("e_shstrndx out of range".into());
                }
            }
        }
        // in-bounds checks for everything the identification depends on
        for (i, ph) in e.phdrs.iter().enumerate() {
            if matches!(ph.p_type, PT_NOTE | PT_DYNAMIC) && r.get(ph.p_offset, ph.p_filesz).is_none() {
                e.problems.push(format!("segment {i} out of bounds"));
            }
        }
        for (i, sh) in e.shdrs.iter().enumerate() {
            if sh.sh_type != SHT_NOBITS && sh.sh_type != 0 && r.get(sh.sh_offset, sh.sh_size).is_none() {
                e.problems.push(format!("section {i} out of bounds"));
            }
        }
        // build id through PT_NOTE
        for ph in e.phdrs.iter().filter(|p| p.p_type == PT_NOTE) {
            match scan_notes(&r, ph.p_offset, ph.p_filesz, ph.p_align) {
                Ok(Some(id)) => {
                    e.note_from_phdr = Some(id);
                    break;
                }
                Ok(None) => {}
                Err(why) => e.problems.push(format!("PT_NOTE: {why}")),
            }
        }
        // build id through the section
        if let Some(sh) = e.shdrs.iter().find(|s| s.name.as_deref() == Some(b".note.gnu.build-id")) {
            match scan_notes(&r, sh.sh_offset, sh.sh_size, sh.sh_addralign) {
                Ok(x) => e.note_from_section = x,
                Err(why) => e.problems.push(format!(".note.gnu.build-id: {why}")),
            }
        }
        // text fold
        if let Some(sh) = e
            .shdrs
            .iter()
            .find(|s| s.sh_type == SHT_PROGBITS && s.sh_flags & SHF_ALLOC != 0 && s.sh_flags & SHF_EXECINSTR != 0)
        {
            let len = sh.sh_size.min(4096);
            if let Some(d) = r.get(sh.sh_offset, len) {
                e.text_fold = Some(xor_fold(d));
            }
        }
        // SONAME through PT_DYNAMIC
        let dynsz = if is64 { 16 } else { 8 };
        let read_dyn = |off: u64, size: u64| -> Option<Vec<(u64, u64)>> {
            let mut v = Vec::new();
            let mut p = 0;
            while p + dynsz <= size {
                let tag = r.word(off + p, is64)?;
                let val = r.word(off + p + dynsz / 2, is64)?;
                if tag == DT_NULL {
                    return Some(v);
                }
                v.push((tag, val));
                p += dynsz;
            }
            None // no DT_NULL terminator
        };
        let vaddr_to_off = |va: u64| -> Option<u64> {
            for ph in e.phdrs.iter().filter(|p| p.p_type == PT_LOAD) {
                if va >= ph.p_vaddr && va - ph.p_vaddr < ph.p_filesz {
                    return ph.p_offset.checked_add(va - ph.p_vaddr);
                }
            }
            None
        };
        if let Some(ph) = e.phdrs.iter().find(|p| p.p_type == PT_DYNAMIC) {
            match read_dyn(ph.p_offset, ph.p_filesz) {
                Some(entries) => {
                    let get = |t: u64| entries.iter().find(|(tag, _)| *tag == t).map(|(_, v)| *v);
                    // last-one-wins vs first-one-wins ambiguity: flag duplicates as not well-formed
                    for t in [DT_SONAME, DT_STRTAB, DT_STRSZ] {
                        if entries.iter().filter(|(tag, _)| *tag == t).count() > 1 {
                            e.problems.push(format!("duplicate dynamic tag {t}"));
                        }
                    }
                    if let (Some(so), Some(st), Some(sz)) = (get(DT_SONAME), get(DT_STRTAB), get(DT_STRSZ)) {
                        if so < sz {
                            match vaddr_to_off(st) {
                                Some(off) => match cstr_at(b, off.wrapping_add(so), sz - so) {
                                    Some(s) => e.soname_from_phdr = Some(String::from_utf8_lossy(&s).into_owned()),
                                    None => e.problems.push("DT_SONAME string unterminated".into()),
                                },
                                None => e.problems.push("DT_STRTAB not inside a PT_LOAD".into()),
                            }
                        } else {
                            e.problems.push("DT_SONAME offset beyond DT_STRSZ".into());
                        }
                    }
                }
                None => e.problems.push("PT_DYNAMIC has no DT_NULL".into()),
            }
        }
        // SONAME through sections
        if let Some(sh) = e.shdrs.iter().find(|s| s.sh_type == SHT_DYNAMIC) {
            if let Some(entries) = read_dyn(sh.sh_offset, sh.sh_size) {
                if let Some((_, so)) = entries.iter().find(|(t, _)| *t == DT_SONAME) {
                    if let Some(st) = e.shdrs.get(sh.sh_link as usize) {
                        if st.sh_type == SHT_STRTAB && *so < st.sh_size {
                            if let Some(s) = st.sh_offset.checked_add(*so).and_then(|o| cstr_at(b, o, st.sh_size - so)) {
                                e.soname_from_section = Some(String::from_utf8_lossy(&s).into_owned());
                            }
                        }
                    }
                }
            }
        }
        Ok(e)
    }

    pub fn well_formed(&self) -> bool {
        self.problems.is_empty()
    }

    /// The build id the statement defines, when it is unambiguous for this image.
    pub fn expected_build_id(&self) -> Option<Vec<u8>> {
        match (&self.note_from_phdr, &self.note_from_section) {
            (Some(a), Some(b)) if a == b => Some(a.clone()),
            (Some(_), Some(_)) => None, // two different notes: ambiguous
            (Some(a), None) => Some(a.clone()),
            (None, Some(b)) => Some(b.clone()),
            (None, None) => self.text_fold.map(|f| f.to_vec()),
        }
    }

    /// The SONAME the statement defines, when unambiguous: Some(Some(name)), Some(None) = has none.
    pub fn expected_soname(&self) -> Option<Option<String>> {
        match (&self.soname_from_phdr, &self.soname_from_section) {
            (Some(a), Some(b)) if a == b => Some(Some(a.clone())),
            (Some(_), Some(_)) => None,
            (Some(a), None) => Some(Some(a.clone())),
            (None, Some(b)) => Some(Some(b.clone())),
            (None, None) => Some(None),
        }
    }
}
