//! Strict, independent minidump reader written against the published layout. It never uses the
//! `minidump` / `minidump-common` crates. Sizes are pinned as constants.
//!
//! It yields (a) decoded streams, (b) a list of *objects* (interval, kind, owning directory slot)
//! for the non-overlap sweep and the crash-prefix check, (c) a list of structural errors.

use serde_json::{json, Value};
use std::collections::BTreeMap;

pub const HEADER_SIZE: usize = 32;
pub const DIRENT_SIZE: usize = 12;
pub const THREAD_SIZE: usize = 48;
pub const THREAD_NAME_SIZE: usize = 12;
pub const MEMDESC_SIZE: usize = 16;
pub const MODULE_SIZE: usize = 108;
pub const EXCEPTION_STREAM_SIZE: usize = 168;
pub const SYSINFO_SIZE: usize = 56;
pub const CONTEXT_AMD64_SIZE: usize = 1232;
pub const MEMINFO_HEADER_SIZE: usize = 16;
pub const MEMINFO_ENTRY_SIZE: usize = 48;
pub const HANDLE_HEADER_SIZE: usize = 16;
pub const HANDLE_DESC_SIZE: usize = 32;
pub const LINKMAP64_SIZE: usize = 20;
pub const DSODEBUG64_SIZE: usize = 36;

pub const SIGNATURE: u32 = 0x504d444d; // "MDMP"
pub const VERSION_LO: u32 = 0xa793;
pub const CV_SIGNATURE_ELF: u32 = 0x4270454c; // "BpEL"

pub const ST_UNUSED: u32 = 0;
pub const ST_THREAD_LIST: u32 = 3;
pub const ST_MODULE_LIST: u32 = 4;
pub const ST_MEMORY_LIST: u32 = 5;
pub const ST_EXCEPTION: u32 = 6;
pub const ST_SYSTEM_INFO: u32 = 7;
pub const ST_HANDLE_DATA: u32 = 12;
pub const ST_MEMORY_INFO_LIST: u32 = 16;
pub const ST_THREAD_NAMES: u32 = 24;
pub const ST_LINUX_CPU_INFO: u32 = 0x47670003;
pub const ST_LINUX_PROC_STATUS: u32 = 0x47670004;
pub const ST_LINUX_LSB_RELEASE: u32 = 0x47670005;
pub const ST_LINUX_CMD_LINE: u32 = 0x47670006;
pub const ST_LINUX_ENVIRON: u32 = 0x47670007;
pub const ST_LINUX_AUXV: u32 = 0x47670008;
pub const ST_LINUX_MAPS: u32 = 0x47670009;
pub const ST_LINUX_DSO_DEBUG: u32 = 0x4767000A;
pub const ST_MOZ_LINUX_LIMITS: u32 = 0x4d7a0003;
pub const ST_MOZ_SOFT_ERRORS: u32 = 0x4d7a0004;

pub fn stream_name(t: u32) -> &'static str {
    match t {
        ST_UNUSED => "Unused",
        ST_THREAD_LIST => "ThreadList",
        ST_MODULE_LIST => "ModuleList",
        ST_MEMORY_LIST => "MemoryList",
        ST_EXCEPTION => "Exception",
        ST_SYSTEM_INFO => "SystemInfo",
        ST_HANDLE_DATA => "HandleData",
        ST_MEMORY_INFO_LIST => "MemoryInfoList",
        ST_THREAD_NAMES => "ThreadNames",
        ST_LINUX_CPU_INFO => "LinuxCpuInfo",
        ST_LINUX_PROC_STATUS => "LinuxProcStatus",
        ST_LINUX_LSB_RELEASE => "LinuxLsbRelease",
        ST_LINUX_CMD_LINE => "LinuxCmdLine",
        ST_LINUX_ENVIRON => "LinuxEnviron",
        ST_LINUX_AUXV => "LinuxAuxv",
        ST_LINUX_MAPS => "LinuxMaps",
        ST_LINUX_DSO_DEBUG => "LinuxDsoDebug",
        ST_MOZ_LINUX_LIMITS => "MozLinuxLimits",
        ST_MOZ_SOFT_ERRORS => "MozSoftErrors",
        _ => "Unknown",
    }
}

fn is_raw_stream(t: u32) -> bool {
    matches!(
        t,
        ST_LINUX_CPU_INFO
            | ST_LINUX_PROC_STATUS
            | ST_LINUX_LSB_RELEASE
            | ST_LINUX_CMD_LINE
            | ST_LINUX_ENVIRON
            | ST_LINUX_AUXV
            | ST_LINUX_MAPS
            | ST_MOZ_LINUX_LIMITS
            | ST_MOZ_SOFT_ERRORS
    )
}

#[derive(Clone, Copy, Debug, PartialEq, Eq, PartialOrd, Ord)]
pub enum Kind {
    Header,
    Directory,
    Stream,
    Stack,
    ThreadContext,
    ExceptionContext,
    ModuleName,
    CvRecord,
    MemoryRegion,
    ThreadNameString,
    HandleName,
    LinkMapArray,
    LinkMapName,
    CsdString,
}

#[derive(Clone, Debug)]
pub struct Obj {
    pub start: u64,
    pub end: u64,
    pub kind: Kind,
    /// directory slot that (transitively) names this object; usize::MAX for header/directory
    pub owner: usize,
    pub what: String,
}

#[derive(Clone, Debug, Default)]
pub struct Loc {
    pub size: u32,
    pub rva: u32,
}

#[derive(Clone, Debug, Default)]
pub struct Thread {
    pub tid: u32,
    pub suspend_count: u32,
    pub priority_class: u32,
    pub priority: u32,
    pub teb: u64,
    pub stack_start: u64,
    pub stack: Loc,
    pub context: Loc,
}

#[derive(Clone, Debug, Default)]
pub struct Module {
    pub base: u64,
    pub size: u32,
    pub name_rva: u32,
    pub name: Option<String>,
    pub version: [u32; 13],
    pub cv: Loc,
    pub misc: Loc,
    pub cv_signature: Option<u32>,
    pub cv_id: Vec<u8>,
}

#[derive(Clone, Debug, Default)]
pub struct MemDesc {
    pub start: u64,
    pub loc: Loc,
}

#[derive(Clone, Debug, Default)]
pub struct Exception {
    pub thread_id: u32,
    pub code: u32,
    pub flags: u32,
    pub record: u64,
    pub address: u64,
    pub num_params: u32,
    pub context: Loc,
}

#[derive(Clone, Debug, Default)]
pub struct SysInfo {
    pub arch: u16,
    pub level: u16,
    pub revision: u16,
    pub nproc: u8,
    pub product_type: u8,
    pub major: u32,
    pub minor: u32,
    pub build: u32,
    pub platform_id: u32,
    pub csd_rva: u32,
    pub csd: Option<String>,
    pub cpu: [u8; 24],
}

#[derive(Clone, Debug, Default, PartialEq, Eq)]
pub struct MemInfo {
    pub base: u64,
    pub alloc_base: u64,
    pub alloc_prot: u32,
    pub region_size: u64,
    pub state: u32,
    pub prot: u32,
    pub ty: u32,
}

#[derive(Clone, Debug, Default)]
pub struct Handle {
    pub handle: u64,
    pub type_name_rva: u32,
    pub object_name_rva: u32,
    pub object_name: Option<String>,
    pub attributes: u32,
    pub granted_access: u32,
    pub handle_count: u32,
    pub pointer_count: u32,
}

#[derive(Clone, Debug, Default)]
pub struct LinkMap {
    pub addr: u64,
    pub name_rva: u32,
    pub name: Option<String>,
    pub ld: u64,
}

#[derive(Clone, Debug, Default)]
pub struct Dso {
    pub version: u32,
    pub map_rva: u32,
    pub dso_count: u32,
    pub brk: u64,
    pub ldbase: u64,
    pub dynamic: u64,
    pub dynamic_bytes: Vec<u8>,
    pub maps: Vec<LinkMap>,
}

#[derive(Clone, Debug, Default)]
pub struct DirEntry {
    pub ty: u32,
    pub size: u32,
    pub rva: u32,
}

#[derive(Clone, Debug, Default)]
pub struct Dump {
    pub len: usize,
    pub signature: u32,
    pub version: u32,
    pub stream_count: u32,
    pub dir_rva: u32,
    pub checksum: u32,
    pub timestamp: u32,
    pub flags: u64,
    pub dir: Vec<DirEntry>,
    pub threads: Vec<Thread>,
    pub modules: Vec<Module>,
    pub memory: Vec<MemDesc>,
    pub exception: Option<Exception>,
    pub sysinfo: Option<SysInfo>,
    pub meminfo: Vec<MemInfo>,
    pub thread_names: Vec<(u32, u64, Option<String>)>,
    pub handles: Vec<Handle>,
    pub dso: Option<Dso>,
    /// raw streams by type: (rva, size)
    pub raw: BTreeMap<u32, (u32, u32)>,
    pub objects: Vec<Obj>,
    pub errors: Vec<String>,
}

struct P<'a> {
    b: &'a [u8],
}

impl<'a> P<'a> {
    fn get(&self, off: u64, len: u64) -> Option<&'a [u8]> {
        let end = off.checked_add(len)?;
        if end > self.b.len() as u64 {
            return None;
        }
        Some(&self.b[off as usize..end as usize])
    }
    fn u16(&self, off: u64) -> Option<u16> {
        self.get(off, 2).map(|s| u16::from_le_bytes([s[0], s[1]]))
    }
    fn u32(&self, off: u64) -> Option<u32> {
        self.get(off, 4).map(|s| u32::from_le_bytes([s[0], s[1], s[2], s[3]]))
    }
    fn u64(&self, off: u64) -> Option<u64> {
        self.get(off, 8).map(|s| u64::from_le_bytes(s.try_into().unwrap()))
    }
}

/// Decode a MINIDUMP_STRING at `rva`: returns (total object length, decoded text or None if the
/// UTF-16 is ill-formed).
pub fn read_string(b: &[u8], rva: u64) -> Result<(u64, Option<String>), String> {
    let p = P { b };
    let len = p.u32(rva).ok_or_else(|| format!("string header at {rva:#x} out of bounds"))? as u64;
    if len % 2 != 0 {
        return Err(format!("string at {rva:#x} has odd byte length {len}"));
    }
    let body = p
        .get(rva + 4, len)
        .ok_or_else(|| format!("string body at {rva:#x}+4 len {len} out of bounds"))?;
    let units: Vec<u16> = body.chunks(2).map(|c| u16::from_le_bytes([c[0], c[1]])).collect();
    Ok((4 + len, String::from_utf16(&units).ok()))
}

impl Dump {
    pub fn parse(b: &[u8]) -> Dump {
        let mut d = Dump { len: b.len(), ..Default::default() };
        let p = P { b };
        macro_rules! err {
            ($($a:tt)*) => { d.errors.push(format!($($a)*)) };
        }
        if b.len() < HEADER_SIZE {
            err!("image shorter than a header ({} bytes)", b.len());
            return d;
        }
        d.signature = p.u32(0).unwrap();
        d.version = p.u32(4).unwrap();
        d.stream_count = p.u32(8).unwrap();
        d.dir_rva = p.u32(12).unwrap();
        d.checksum = p.u32(16).unwrap();
        d.timestamp = p.u32(20).unwrap();
        d.flags = p.u64(24).unwrap();
        if d.signature != SIGNATURE {
            err!("bad signature {:#x}", d.signature);
        }
        if d.version & 0xffff != VERSION_LO {
            err!("bad version {:#x}", d.version);
        }
        d.objects.push(Obj { start: 0, end: HEADER_SIZE as u64, kind: Kind::Header, owner: usize::MAX, what: "header".into() });
        let dir_len = d.stream_count as u64 * DIRENT_SIZE as u64;
        if d.stream_count > 4096 {
            err!("implausible stream count {}", d.stream_count);
            return d;
        }
        if p.get(d.dir_rva as u64, dir_len).is_none() {
            err!("directory [{:#x}, +{}) out of bounds (image {} bytes)", d.dir_rva, dir_len, b.len());
            return d;
        }
        d.objects.push(Obj {
            start: d.dir_rva as u64,
            end: d.dir_rva as u64 + dir_len,
            kind: Kind::Directory,
            owner: usize::MAX,
            what: "directory".into(),
        });
        for i in 0..d.stream_count as u64 {
            let o = d.dir_rva as u64 + i * DIRENT_SIZE as u64;
            d.dir.push(DirEntry { ty: p.u32(o).unwrap(), size: p.u32(o + 4).unwrap(), rva: p.u32(o + 8).unwrap() });
        }
        let mut seen: BTreeMap<u32, usize> = BTreeMap::new();
        let dir = d.dir.clone();
        for (slot, e) in dir.iter().enumerate() {
            if e.ty == ST_UNUSED {
                if e.size != 0 || e.rva != 0 {
                    err!("slot {slot}: unused entry with non-empty location ({:#x}, {})", e.rva, e.size);
                }
                continue;
            }
            if stream_name(e.ty) == "Unknown" {
                err!("slot {slot}: unknown stream type {:#x}", e.ty);
                continue;
            }
            if let Some(prev) = seen.insert(e.ty, slot) {
                err!("slot {slot}: stream type {} occurs twice (also slot {prev})", stream_name(e.ty));
            }
            if p.get(e.rva as u64, e.size as u64).is_none() {
                err!("slot {slot} {}: body [{:#x}, +{}) out of bounds (image {} bytes)", stream_name(e.ty), e.rva, e.size, b.len());
                continue;
            }
            d.objects.push(Obj {
                start: e.rva as u64,
                end: e.rva as u64 + e.size as u64,
                kind: Kind::Stream,
                owner: slot,
                what: format!("stream {}", stream_name(e.ty)),
            });
            d.parse_stream(&p, slot, e);
        }
        d
    }

    fn blob(&mut self, p: &P, owner: usize, kind: Kind, rva: u64, size: u64, what: String) -> bool {
        if size == 0 {
            return true;
        }
        if p.get(rva, size).is_none() {
            self.errors.push(format!("{what}: [{rva:#x}, +{size}) out of bounds (image {} bytes)", self.len));
            return false;
        }
        self.objects.push(Obj { start: rva, end: rva + size, kind, owner, what });
        true
    }

    fn string(&mut self, p: &P, owner: usize, kind: Kind, rva: u64, what: String) -> Option<String> {
        match read_string(p.b, rva) {
            Ok((total, s)) => {
                self.objects.push(Obj { start: rva, end: rva + total, kind, owner, what: what.clone() });
                if s.is_none() {
                    self.errors.push(format!("{what}: ill-formed UTF-16 at {rva:#x}"));
                }
                s
            }
            Err(e) => {
                self.errors.push(format!("{what}: {e}"));
                None
            }
        }
    }

    fn parse_stream(&mut self, p: &P, slot: usize, e: &DirEntry) {
        let rva = e.rva as u64;
        let size = e.size as u64;
        let name = stream_name(e.ty);
        macro_rules! err {
            ($($a:tt)*) => { self.errors.push(format!($($a)*)) };
        }
        match e.ty {
            ST_THREAD_LIST => {
                if size < 4 {
                    err!("ThreadList: size {size} < 4");
                    return;
                }
                let n = p.u32(rva).unwrap() as u64;
                if size != 4 + n * THREAD_SIZE as u64 {
                    err!("ThreadList: size {size} != 4 + {n}*{THREAD_SIZE}");
                    return;
                }
                for i in 0..n {
                    let o = rva + 4 + i * THREAD_SIZE as u64;
                    let t = Thread {
                        tid: p.u32(o).unwrap(),
                        suspend_count: p.u32(o + 4).unwrap(),
                        priority_class: p.u32(o + 8).unwrap(),
                        priority: p.u32(o + 12).unwrap(),
                        teb: p.u64(o + 16).unwrap(),
                        stack_start: p.u64(o + 24).unwrap(),
                        stack: Loc { size: p.u32(o + 32).unwrap(), rva: p.u32(o + 36).unwrap() },
                        context: Loc { size: p.u32(o + 40).unwrap(), rva: p.u32(o + 44).unwrap() },
                    };
                    self.blob(p, slot, Kind::Stack, t.stack.rva as u64, t.stack.size as u64, format!("stack of thread {}", t.tid));
                    if t.context.size as usize != CONTEXT_AMD64_SIZE {
                        err!("thread {}: context size {} != {CONTEXT_AMD64_SIZE}", t.tid, t.context.size);
                    }
                    self.blob(p, slot, Kind::ThreadContext, t.context.rva as u64, t.context.size as u64, format!("context of thread {}", t.tid));
                    self.threads.push(t);
                }
            }
            ST_MODULE_LIST => {
                if size < 4 {
                    err!("ModuleList: size {size} < 4");
                    return;
                }
                let n = p.u32(rva).unwrap() as u64;
                if size != 4 + n * MODULE_SIZE as u64 {
                    err!("ModuleList: size {size} != 4 + {n}*{MODULE_SIZE}");
                    return;
                }
                for i in 0..n {
                    let o = rva + 4 + i * MODULE_SIZE as u64;
                    let mut m = Module {
                        base: p.u64(o).unwrap(),
                        size: p.u32(o + 8).unwrap(),
                        name_rva: p.u32(o + 20).unwrap(),
                        cv: Loc { size: p.u32(o + 76).unwrap(), rva: p.u32(o + 80).unwrap() },
                        misc: Loc { size: p.u32(o + 84).unwrap(), rva: p.u32(o + 88).unwrap() },
                        ..Default::default()
                    };
                    for k in 0..13 {
                        m.version[k] = p.u32(o + 24 + 4 * k as u64).unwrap();
                    }
                    m.name = self.string(p, slot, Kind::ModuleName, m.name_rva as u64, format!("name of module #{i} base {:#x}", m.base));
                    if m.cv.size != 0 {
                        if m.cv.size < 4 {
                            err!("module #{i}: cv record of {} bytes", m.cv.size);
                        }
                        if self.blob(p, slot, Kind::CvRecord, m.cv.rva as u64, m.cv.size as u64, format!("cv record of module #{i} base {:#x}", m.base)) && m.cv.size >= 4 {
                            m.cv_signature = p.u32(m.cv.rva as u64);
                            m.cv_id = p.get(m.cv.rva as u64 + 4, m.cv.size as u64 - 4).unwrap().to_vec();
                            if m.cv_signature != Some(CV_SIGNATURE_ELF) {
                                err!("module #{i}: cv signature {:#x?} is not BpEL", m.cv_signature);
                            }
                        }
                    }
                    if m.misc.size != 0 {
                        err!("module #{i}: unexpected misc record");
                    }
                    self.modules.push(m);
                }
            }
            ST_MEMORY_LIST => {
                if size < 4 {
                    err!("MemoryList: size {size} < 4");
                    return;
                }
                let n = p.u32(rva).unwrap() as u64;
                if size != 4 + n * MEMDESC_SIZE as u64 {
                    err!("MemoryList: size {size} != 4 + {n}*{MEMDESC_SIZE}");
                    return;
                }
                for i in 0..n {
                    let o = rva + 4 + i * MEMDESC_SIZE as u64;
                    let m = MemDesc { start: p.u64(o).unwrap(), loc: Loc { size: p.u32(o + 8).unwrap(), rva: p.u32(o + 12).unwrap() } };
                    self.blob(p, slot, Kind::MemoryRegion, m.loc.rva as u64, m.loc.size as u64, format!("memory region #{i} at {:#x}", m.start));
                    self.memory.push(m);
                }
            }
            ST_EXCEPTION => {
                if size != EXCEPTION_STREAM_SIZE as u64 {
                    err!("Exception: size {size} != {EXCEPTION_STREAM_SIZE}");
                    return;
                }
                let x = Exception {
                    thread_id: p.u32(rva).unwrap(),
                    code: p.u32(rva + 8).unwrap(),
                    flags: p.u32(rva + 12).unwrap(),
                    record: p.u64(rva + 16).unwrap(),
                    address: p.u64(rva + 24).unwrap(),
                    num_params: p.u32(rva + 32).unwrap(),
                    context: Loc { size: p.u32(rva + 160).unwrap(), rva: p.u32(rva + 164).unwrap() },
                };
                if x.context.size != 0 && x.context.size as usize != CONTEXT_AMD64_SIZE {
                    err!("Exception: context size {} != {CONTEXT_AMD64_SIZE}", x.context.size);
                }
                self.blob(p, slot, Kind::ExceptionContext, x.context.rva as u64, x.context.size as u64, "exception context".into());
                self.exception = Some(x);
            }
            ST_SYSTEM_INFO => {
                if size != SYSINFO_SIZE as u64 {
                    err!("SystemInfo: size {size} != {SYSINFO_SIZE}");
                    return;
                }
                let mut s = SysInfo {
                    arch: p.u16(rva).unwrap(),
                    level: p.u16(rva + 2).unwrap(),
                    revision: p.u16(rva + 4).unwrap(),
                    nproc: p.b[rva as usize + 6],
                    product_type: p.b[rva as usize + 7],
                    major: p.u32(rva + 8).unwrap(),
                    minor: p.u32(rva + 12).unwrap(),
                    build: p.u32(rva + 16).unwrap(),
                    platform_id: p.u32(rva + 20).unwrap(),
                    csd_rva: p.u32(rva + 24).unwrap(),
                    ..Default::default()
                };
                s.cpu.copy_from_slice(p.get(rva + 32, 24).unwrap());
                s.csd = self.string(p, slot, Kind::CsdString, s.csd_rva as u64, "CSD version string".into());
                self.sysinfo = Some(s);
            }
            ST_MEMORY_INFO_LIST => {
                if size < MEMINFO_HEADER_SIZE as u64 {
                    err!("MemoryInfoList: size {size} < header");
                    return;
                }
                let sh = p.u32(rva).unwrap();
                let se = p.u32(rva + 4).unwrap();
                let n = p.u64(rva + 8).unwrap();
                if sh as usize != MEMINFO_HEADER_SIZE || se as usize != MEMINFO_ENTRY_SIZE {
                    err!("MemoryInfoList: header/entry sizes {sh}/{se}");
                    return;
                }
                if n > 1 << 24 || size != MEMINFO_HEADER_SIZE as u64 + n * MEMINFO_ENTRY_SIZE as u64 {
                    err!("MemoryInfoList: size {size} != 16 + {n}*48");
                    return;
                }
                for i in 0..n {
                    let o = rva + 16 + i * 48;
                    self.meminfo.push(MemInfo {
                        base: p.u64(o).unwrap(),
                        alloc_base: p.u64(o + 8).unwrap(),
                        alloc_prot: p.u32(o + 16).unwrap(),
                        region_size: p.u64(o + 24).unwrap(),
                        state: p.u32(o + 32).unwrap(),
                        prot: p.u32(o + 36).unwrap(),
                        ty: p.u32(o + 40).unwrap(),
                    });
                }
            }
            ST_THREAD_NAMES => {
                if size < 4 {
                    err!("ThreadNames: size {size} < 4");
                    return;
                }
                let n = p.u32(rva).unwrap() as u64;
                if size != 4 + n * THREAD_NAME_SIZE as u64 {
                    err!("ThreadNames: size {size} != 4 + {n}*{THREAD_NAME_SIZE}");
                    return;
                }
                for i in 0..n {
                    let o = rva + 4 + i * THREAD_NAME_SIZE as u64;
                    let tid = p.u32(o).unwrap();
                    let nrva = p.u64(o + 4).unwrap();
                    let s = self.string(p, slot, Kind::ThreadNameString, nrva, format!("name of thread {tid} (entry {i})"));
                    self.thread_names.push((tid, nrva, s));
                }
            }
            ST_HANDLE_DATA => {
                if size < HANDLE_HEADER_SIZE as u64 {
                    err!("HandleData: size {size} < header");
                    return;
                }
                let sh = p.u32(rva).unwrap();
                let sd = p.u32(rva + 4).unwrap();
                let n = p.u32(rva + 8).unwrap() as u64;
                if sh as usize != HANDLE_HEADER_SIZE || sd as usize != HANDLE_DESC_SIZE {
                    err!("HandleData: header/descriptor sizes {sh}/{sd}");
                    return;
                }
                if size != 16 + n * 32 {
                    err!("HandleData: size {size} != 16 + {n}*32");
                    return;
                }
                for i in 0..n {
                    let o = rva + 16 + i * 32;
                    let mut h = Handle {
                        handle: p.u64(o).unwrap(),
                        type_name_rva: p.u32(o + 8).unwrap(),
                        object_name_rva: p.u32(o + 12).unwrap(),
                        attributes: p.u32(o + 16).unwrap(),
                        granted_access: p.u32(o + 20).unwrap(),
                        handle_count: p.u32(o + 24).unwrap(),
                        pointer_count: p.u32(o + 28).unwrap(),
                        object_name: None,
                    };
                    if h.type_name_rva != 0 {
                        self.string(p, slot, Kind::HandleName, h.type_name_rva as u64, format!("type name of handle {}", h.handle));
                    }
                    if h.object_name_rva != 0 {
                        h.object_name = self.string(p, slot, Kind::HandleName, h.object_name_rva as u64, format!("object name of handle {}", h.handle));
                    }
                    self.handles.push(h);
                }
            }
            ST_LINUX_DSO_DEBUG => {
                if size < DSODEBUG64_SIZE as u64 {
                    err!("LinuxDsoDebug: size {size} < {DSODEBUG64_SIZE}");
                    return;
                }
                let mut dso = Dso {
                    version: p.u32(rva).unwrap(),
                    map_rva: p.u32(rva + 4).unwrap(),
                    dso_count: p.u32(rva + 8).unwrap(),
                    brk: p.u64(rva + 12).unwrap(),
                    ldbase: p.u64(rva + 20).unwrap(),
                    dynamic: p.u64(rva + 28).unwrap(),
                    ..Default::default()
                };
                dso.dynamic_bytes = p.get(rva + 36, size - 36).unwrap().to_vec();
                if (size - 36) % 16 != 0 {
                    err!("LinuxDsoDebug: dynamic area of {} bytes is not a multiple of 16", size - 36);
                }
                if dso.dso_count > 0 {
                    let n = dso.dso_count as u64;
                    if n > 1 << 20 {
                        err!("LinuxDsoDebug: implausible dso_count {n}");
                    } else if self.blob(p, slot, Kind::LinkMapArray, dso.map_rva as u64, n * LINKMAP64_SIZE as u64, "link-map array".into()) {
                        for i in 0..n {
                            let o = dso.map_rva as u64 + i * 20;
                            let mut lm = LinkMap { addr: p.u64(o).unwrap(), name_rva: p.u32(o + 8).unwrap(), ld: p.u64(o + 12).unwrap(), name: None };
                            lm.name = self.string(p, slot, Kind::LinkMapName, lm.name_rva as u64, format!("name of link-map entry {i}"));
                            dso.maps.push(lm);
                        }
                    }
                }
                self.dso = Some(dso);
            }
            t if is_raw_stream(t) => {
                self.raw.insert(t, (e.rva, e.size));
            }
            _ => {
                err!("slot {slot}: no decoder for {name}");
            }
        }
    }

    /// Interval sweep: every pair of overlapping objects must be an *identical* interval of one of
    /// the two intended kinds (stack <-> memory-list region; exception context <-> thread context).
    pub fn overlap_errors(&self) -> Vec<String> {
        let mut v: Vec<&Obj> = self.objects.iter().filter(|o| o.end > o.start).collect();
        v.sort_by(|a, b| (a.start, a.end, a.kind).cmp(&(b.start, b.end, b.kind)));
        let mut out = Vec::new();
        // active set sweep; object counts are small (hundreds), so a simple O(n * active) scan is fine
        let mut active: Vec<&Obj> = Vec::new();
        for o in v {
            active.retain(|a| a.end > o.start);
            for a in &active {
                let identical = a.start == o.start && a.end == o.end;
                let pair = (a.kind.min(o.kind), a.kind.max(o.kind));
                let allowed = identical
                    && (pair == (Kind::Stack, Kind::MemoryRegion)
                        || pair == (Kind::ThreadContext, Kind::ExceptionContext));
                if !allowed {
                    out.push(format!(
                        "overlap: {} [{:#x},{:#x}) and {} [{:#x},{:#x})",
                        a.what, a.start, a.end, o.what, o.start, o.end
                    ));
                    if out.len() > 20 {
                        return out;
                    }
                }
            }
            active.push(o);
        }
        // an allowed identical pair must be exactly a pair (not three descriptors on one blob)
        let mut groups: BTreeMap<(u64, u64), Vec<Kind>> = BTreeMap::new();
        for o in self.objects.iter().filter(|o| o.end > o.start) {
            groups.entry((o.start, o.end)).or_default().push(o.kind);
        }
        for ((s, e), ks) in groups {
            if ks.len() > 2 {
                out.push(format!("blob [{s:#x},{e:#x}) is named by {} descriptors: {:?}", ks.len(), ks));
            }
        }
        out
    }

    /// All structural complaints of C01: parse errors + overlaps.
    pub fn structural_errors(&self) -> Vec<String> {
        let mut v = self.errors.clone();
        v.extend(self.overlap_errors());
        v
    }

    pub fn raw_bytes<'a>(&self, b: &'a [u8], ty: u32) -> Option<&'a [u8]> {
        self.raw.get(&ty).map(|(rva, size)| &b[*rva as usize..(*rva + *size) as usize])
    }

    pub fn has_stream(&self, ty: u32) -> bool {
        self.dir.iter().any(|e| e.ty == ty)
    }

    pub fn loc_bytes<'a>(&self, b: &'a [u8], l: &Loc) -> Option<&'a [u8]> {
        let s = l.rva as usize;
        let e = s.checked_add(l.size as usize)?;
        b.get(s..e)
    }

    /// Normalised decoding: every RVA replaced by the content it designates; used by the
    /// differential oracles. `opts.mask_volatile` masks the timestamp and the raw streams whose
    /// content changes between two dumps of an unchanged target (cpuinfo MHz, status counters).
    pub fn normalized(&self, b: &[u8], opts: &NormOpts) -> Value {
        let ctx = |l: &Loc| -> Value {
            match self.loc_bytes(b, l) {
                Some(x) if !x.is_empty() => json!(format!("{:016x}/{}", crate::fnv(x), x.len())),
                Some(_) => json!("empty"),
                None => json!("OUT-OF-BOUNDS"),
            }
        };
        let threads: Vec<Value> = self
            .threads
            .iter()
            .map(|t| {
                json!({"tid": t.tid, "stack_start": t.stack_start, "stack": ctx(&t.stack), "context": ctx(&t.context),
                        "suspend": t.suspend_count, "prio": [t.priority_class, t.priority], "teb": t.teb})
            })
            .collect();
        let modules: Vec<Value> = self
            .modules
            .iter()
            .map(|m| json!({"base": m.base, "size": m.size, "name": m.name, "version": m.version.to_vec(), "cv": crate::hex(&m.cv_id), "cvsig": m.cv_signature}))
            .collect();
        let mut memory: Vec<Value> = self.memory.iter().map(|m| json!({"start": m.start, "bytes": ctx(&m.loc)})).collect();
        memory.sort_by_key(|v| v.to_string());
        let exception = self.exception.as_ref().map(|x| {
            json!({"tid": x.thread_id, "code": x.code, "flags": x.flags, "record": x.record, "address": x.address, "nparams": x.num_params, "context": ctx(&x.context)})
        });
        let sysinfo = self.sysinfo.as_ref().map(|s| {
            json!({"arch": s.arch, "level": s.level, "rev": s.revision, "nproc": s.nproc, "ptype": s.product_type, "ver": [s.major, s.minor, s.build],
                   "platform": s.platform_id, "csd": s.csd, "cpu": crate::hex(&s.cpu)})
        });
        let names: Vec<Value> = self.thread_names.iter().map(|(t, _, n)| json!([t, n])).collect();
        let handles: Vec<Value> = self.handles.iter().map(|h| json!({"h": h.handle, "name": h.object_name, "attr": h.attributes})).collect();
        let dso = self.dso.as_ref().map(|d| {
            json!({"version": d.version, "count": d.dso_count, "brk": d.brk, "ldbase": d.ldbase, "dynamic": d.dynamic,
                   "dynbytes": crate::hex(&d.dynamic_bytes), "maps": d.maps.iter().map(|m| json!([m.addr, m.name, m.ld])).collect::<Vec<_>>()})
        });
        let mut raw = serde_json::Map::new();
        for (ty, (rva, size)) in &self.raw {
            let bytes = &b[*rva as usize..(*rva + *size) as usize];
            let volatile = matches!(*ty, ST_LINUX_CPU_INFO | ST_LINUX_PROC_STATUS);
            if opts.mask_volatile && volatile {
                raw.insert(stream_name(*ty).into(), json!("present(masked)"));
            } else if *ty == ST_MOZ_SOFT_ERRORS {
                raw.insert(stream_name(*ty).into(), json!(String::from_utf8_lossy(bytes)));
            } else {
                raw.insert(stream_name(*ty).into(), json!(format!("{:016x}/{}", crate::fnv(bytes), bytes.len())));
            }
        }
        let meminfo: Vec<Value> = self.meminfo.iter().map(|m| json!([m.base, m.region_size, m.prot, m.ty, m.alloc_prot, m.state])).collect();
        let streams: Vec<Value> = self.dir.iter().map(|e| json!(stream_name(e.ty))).collect();
        json!({
            "streams": streams,
            "timestamp": if opts.mask_volatile { json!("masked") } else { json!(self.timestamp) },
            "threads": threads, "modules": modules, "memory": memory, "exception": exception, "sysinfo": sysinfo,
            "thread_names": names, "handles": handles, "dso": dso, "raw": raw, "meminfo": meminfo,
        })
    }
}

#[derive(Default, Clone)]
pub struct NormOpts {
    pub mask_volatile: bool,
}

/// CONTEXT_AMD64 field offsets (restated from the format definition).
pub mod ctx {
    pub const CONTEXT_FLAGS: usize = 48;
    pub const MXCSR: usize = 52;
    pub const CS: usize = 56;
    pub const DS: usize = 58;
    pub const ES: usize = 60;
    pub const FS: usize = 62;
    pub const GS: usize = 64;
    pub const SS: usize = 66;
    pub const EFLAGS: usize = 68;
    pub const DR0: usize = 72;
    pub const RAX: usize = 120;
    pub const RCX: usize = 128;
    pub const RDX: usize = 136;
    pub const RBX: usize = 144;
    pub const RSP: usize = 152;
    pub const RBP: usize = 160;
    pub const RSI: usize = 168;
    pub const RDI: usize = 176;
    pub const R8: usize = 184;
    pub const R9: usize = 192;
    pub const R10: usize = 200;
    pub const R11: usize = 208;
    pub const R12: usize = 216;
    pub const R13: usize = 224;
    pub const R14: usize = 232;
    pub const R15: usize = 240;
    pub const RIP: usize = 248;
    pub const FLOAT_SAVE: usize = 256;
    // inside float_save (XMM_SAVE_AREA32)
    pub const FS_CONTROL_WORD: usize = 256;
    pub const FS_STATUS_WORD: usize = 258;
    pub const FS_TAG_WORD: usize = 260;
    pub const FS_ERROR_OPCODE: usize = 262;
    pub const FS_ERROR_OFFSET: usize = 264;
    pub const FS_ERROR_SELECTOR: usize = 268;
    pub const FS_DATA_OFFSET: usize = 272;
    pub const FS_DATA_SELECTOR: usize = 276;
    pub const FS_MXCSR: usize = 280;
    pub const FS_MXCSR_MASK: usize = 284;
    pub const FS_FLOAT_REGISTERS: usize = 288; // 8 x 16
    pub const FS_XMM_REGISTERS: usize = 416; // 16 x 16
    pub const FS_RESERVED4: usize = 672; // 96
    pub const VECTOR_REGISTER: usize = 768;
    pub const SIZE: usize = 1232;

    pub fn u64_at(c: &[u8], off: usize) -> u64 {
        u64::from_le_bytes(c[off..off + 8].try_into().unwrap())
    }
    pub fn u32_at(c: &[u8], off: usize) -> u32 {
        u32::from_le_bytes(c[off..off + 4].try_into().unwrap())
    }
    pub fn u16_at(c: &[u8], off: usize) -> u16 {
        u16::from_le_bytes(c[off..off + 2].try_into().unwrap())
    }
}
