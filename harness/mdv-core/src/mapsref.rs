//! Independent `/proc/<pid>/maps` line reader and the C13 invariants ("no re-implementation to
//! agree with": only the statement's laws are checked).

#[derive(Clone, Debug, PartialEq, Eq)]
pub struct Line {
    pub start: u64,
    pub end: u64,
    pub perms: [u8; 4],
    pub offset: u64,
    pub dev: String,
    pub inode: u64,
    pub name: Option<Vec<u8>>,
}

impl Line {
    pub fn readable(&self) -> bool {
        self.perms[0] == b'r'
    }
    pub fn writable(&self) -> bool {
        self.perms[1] == b'w'
    }
    pub fn executable(&self) -> bool {
        self.perms[2] == b'x'
    }
    pub fn private(&self) -> bool {
        self.perms[3] == b'p'
    }
    /// `---p`
    pub fn inaccessible_private(&self) -> bool {
        &self.perms == b"---p"
    }
    /// name with a trailing " (deleted)" removed
    pub fn clean_name(&self) -> Option<Vec<u8>> {
        self.name.as_ref().map(|n| n.strip_suffix(b" (deleted)").map(|s| s.to_vec()).unwrap_or_else(|| n.clone()))
    }
    pub fn name_is_path(&self) -> bool {
        self.name.as_ref().map(|n| n.contains(&b'/')).unwrap_or(false)
    }
    pub fn text(&self) -> String {
        let mut s = format!(
            "{:08x}-{:08x} {} {:08x} {} {} ",
            self.start,
            self.end,
            String::from_utf8_lossy(&self.perms),
            self.offset,
            self.dev,
            self.inode
        );
        if let Some(n) = &self.name {
            while s.len() < 73 {
                s.push(' ');
            }
            s.push_str(&String::from_utf8_lossy(n));
        }
        s
    }
}

/// Parse the text of a maps file (own parser).
pub fn parse_maps(text: &[u8]) -> Result<Vec<Line>, String> {
    let mut out = Vec::new();
    for raw in text.split(|c| *c == b'\n') {
        if raw.is_empty() {
            continue;
        }
        let mut fields: Vec<&[u8]> = Vec::new();
        let mut rest = raw;
        for _ in 0..5 {
            let rest_trim = trim_start(rest);
            let n = rest_trim.iter().position(|c| *c == b' ').unwrap_or(rest_trim.len());
            fields.push(&rest_trim[..n]);
            rest = &rest_trim[n..];
        }
        let name = trim_start(rest);
        let s = |b: &[u8]| String::from_utf8_lossy(b).into_owned();
        let range = s(fields[0]);
        let (a, b) = range.split_once('-').ok_or_else(|| format!("bad range in {:?}", s(raw)))?;
        let perms: [u8; 4] = fields[1].try_into().map_err(|_| format!("bad perms in {:?}", s(raw)))?;
        out.push(Line {
            start: u64::from_str_radix(a, 16).map_err(|e| e.to_string())?,
            end: u64::from_str_radix(b, 16).map_err(|e| e.to_string())?,
            perms,
            offset: u64::from_str_radix(&s(fields[2]), 16).map_err(|e| e.to_string())?,
            dev: s(fields[3]),
            inode: s(fields[4]).parse().map_err(|_| "bad inode".to_string())?,
            name: if name.is_empty() { None } else { Some(name.to_vec()) },
        });
    }
    Ok(out)
}

fn trim_start(b: &[u8]) -> &[u8] {
    let n = b.iter().position(|c| *c != b' ').unwrap_or(b.len());
    &b[n..]
}

#[derive(Clone, Debug)]
pub struct OutMapping {
    pub start: u64,
    pub size: u64,
    pub name: Option<Vec<u8>>,
}

pub const LINUX_GATE: &[u8] = b"linux-gate.so";

/// The C13 laws. Returns (class key, message) for the first law broken, or None.
pub fn check_aggregation(lines: &[Line], gate: Option<u64>, outs: &[OutMapping]) -> Option<(String, String)> {
    // 1. ascending, disjoint
    for w in outs.windows(2) {
        let a_end = w[0].start.checked_add(w[0].size);
        if a_end.is_none() || a_end.unwrap() > w[1].start {
            return Some(("order-or-overlap".into(), format!("outputs [{:#x},+{:#x}) and [{:#x},+{:#x}) overlap or are out of order", w[0].start, w[0].size, w[1].start, w[1].size)));
        }
    }
    // 2. every line inside exactly one output; runs of consecutive lines
    let mut owner = vec![usize::MAX; lines.len()];
    for (i, l) in lines.iter().enumerate() {
        let mut n = 0;
        for (j, o) in outs.iter().enumerate() {
            let oend = o.start.saturating_add(o.size);
            if l.start >= o.start && l.end <= oend {
                owner[i] = j;
                n += 1;
            }
        }
        if n != 1 {
            return Some(("line-not-in-exactly-one".into(), format!("line {i} [{:#x},{:#x}) is contained in {n} derived mappings", l.start, l.end)));
        }
    }
    for i in 1..lines.len() {
        if owner[i] < owner[i - 1] {
            return Some(("owner-order".into(), format!("line {i} belongs to an earlier output than line {}", i - 1)));
        }
    }
    // 3. hull + contiguity + justification per output
    for (j, o) in outs.iter().enumerate() {
        let run: Vec<usize> = (0..lines.len()).filter(|i| owner[*i] == j).collect();
        if run.is_empty() {
            return Some(("empty-output".into(), format!("output {j} [{:#x},+{:#x}) contains no line", o.start, o.size)));
        }
        let first = &lines[run[0]];
        let last = &lines[*run.last().unwrap()];
        if o.start != first.start || o.start + o.size != last.end {
            return Some(("hull".into(), format!("output {j} is [{:#x},{:#x}) but the hull of its lines is [{:#x},{:#x})", o.start, o.start + o.size, first.start, last.end)));
        }
        // effective names (gate renaming applies to a non-path line starting at the gate address)
        let eff_name = |l: &Line| -> Option<Vec<u8>> {
            if gate == Some(l.start) && !l.name_is_path() {
                Some(LINUX_GATE.to_vec())
            } else {
                l.clean_name()
            }
        };
        let run_name = eff_name(first);
        let run_is_path = run_name.as_ref().map(|n| n.contains(&b'/')).unwrap_or(false);
        let mut exec_so_far = first.executable();
        for k in 1..run.len() {
            let prev = &lines[run[k - 1]];
            let cur = &lines[run[k]];
            if cur.start != prev.end {
                return Some(("merged-noncontiguous".into(), format!("output {j} merges line {} with a non-contiguous predecessor", run[k])));
            }
            let cur_name = eff_name(cur);
            // (a) same non-empty name as an earlier line of the run
            let a = cur_name.is_some() && (0..k).any(|q| eff_name(&lines[run[q]]) == cur_name);
            // (b) inaccessible private line directly after an executable, path-named run
            let b = cur.inaccessible_private() && exec_so_far && run_is_path;
            // (c) inaccessible private anonymous offset-0 line whose successor continues the file
            let c = cur.inaccessible_private()
                && cur.name.is_none()
                && cur.offset == 0
                && run_is_path
                && k + 1 < run.len()
                && lines[run[k + 1]].start == cur.end
                && eff_name(&lines[run[k + 1]]) == run_name;
            if !(a || b || c) {
                return Some(("unjustified-merge".into(), format!(
                    "output {j} [{:#x},+{:#x}) merges line {} ({}) without justification (same name / reserved gap after executable file / empty page between two parts of one file)",
                    o.start, o.size, run[k], cur.text()
                )));
            }
            exec_so_far |= cur.executable();
        }
        // 4. gate naming
        if gate == Some(o.start) && !first.name_is_path() {
            if o.name.as_deref() != Some(LINUX_GATE) {
                return Some(("gate-not-named".into(), format!("output starting at the vDSO address {:#x} is named {:?}", o.start, o.name.as_ref().map(|n| String::from_utf8_lossy(n).into_owned()))));
            }
        } else if o.name.as_deref() == Some(LINUX_GATE) && first.clean_name().as_deref() != Some(LINUX_GATE) {
            return Some(("gate-misnamed".into(), format!("output at {:#x} is named linux-gate.so but does not start at the vDSO address {gate:x?}", o.start)));
        }
    }
    None
}
