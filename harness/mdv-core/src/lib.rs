#![allow(dead_code, unused_mut, unused_variables)]
//! Shared plumbing of the minidump-writer model-checking harness: evidence, replays,
//! known findings, exit codes, enumeration helpers and the independent oracles.
//! This crate deliberately does NOT depend on minidump-writer.

pub mod elfbuild;
pub mod elfref;
pub mod lat;
pub mod mapsref;
pub mod mdparse;
pub mod report;

pub use report::{Report, Tier};
pub use serde_json::{json, Value};

/// FNV-1a, used for canonical state keys (deterministic across runs, unlike SipHash's random keys).
pub fn fnv(bytes: &[u8]) -> u64 {
    let mut h: u64 = 0xcbf29ce484222325;
    for b in bytes {
        h ^= *b as u64;
        h = h.wrapping_mul(0x100000001b3);
    }
    h
}

pub fn hex(b: &[u8]) -> String {
    let mut s = String::with_capacity(b.len() * 2);
    for x in b {
        s.push_str(&format!("{:02x}", x));
    }
    s
}

pub fn unhex(s: &str) -> Vec<u8> {
    (0..s.len() / 2)
        .map(|i| u8::from_str_radix(&s[2 * i..2 * i + 2], 16).unwrap_or(0))
        .collect()
}

/// Byte at address `a` of a PATTERN region (checker and puppet share this definition).
#[inline]
pub fn pattern_byte(a: u64) -> u8 {
    let x = a.wrapping_mul(0x9E3779B97F4A7C15);
    ((x >> 56) ^ (x >> 24) ^ a) as u8
}
