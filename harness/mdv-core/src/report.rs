//! Evidence / replay / known-findings / exit-code plumbing shared by every checker.

use serde_json::{json, Map, Value};
use std::collections::{BTreeMap, BTreeSet};
use std::time::Instant;

#[derive(Clone, Copy, PartialEq, Eq, Debug)]
pub enum Tier {
    Quick,
    Thorough,
}

impl Tier {
    pub fn name(self) -> &'static str {
        match self {
            Tier::Quick => "quick",
            Tier::Thorough => "thorough",
        }
    }
    pub fn is_thorough(self) -> bool {
        self == Tier::Thorough
    }
}

pub const VERIF_ROOT: &str = "/verif";

struct Violation {
    key: String,
    what: String,
    replay_path: String,
}

/// Violations recorded so far in this process (property, replay path): lets the watchdog / abort handler
/// of a run that dies later still deliver the verdict that was already reached.
pub static FOUND_SO_FAR: std::sync::Mutex<Vec<(String, String)>> = std::sync::Mutex::new(Vec::new());

/// Print the VIOLATION lines of everything found so far; true if there was anything.
pub fn emergency_flush() -> bool {
    let g = match FOUND_SO_FAR.try_lock() {
        Ok(g) => g,
        Err(_) => return false,
    };
    for (prop, path) in g.iter() {
        println!("VIOLATION property={prop} replay={path}");
    }
    !g.is_empty()
}

pub struct Report {
    pub prop: String,
    pub tier: Tier,
    pub level: &'static str,
    pub seed: i64,
    start: Instant,
    pub evaluations: u64,
    pub nontrivial: u64,
    pub states: u64,
    pub transitions: u64,
    pub traces: u64,
    pub rule: String,
    pub exhaustive: bool,
    pub samples: Vec<Value>,
    pub extra: Map<String, Value>,
    pub counters: BTreeMap<String, u64>,
    pub outcomes: BTreeSet<u64>,
    pub assumptions: Vec<String>,
    violations: Vec<Violation>,
    violation_keys: BTreeSet<String>,
    pub suppressed_violations: u64,
    known: Vec<(String, String)>, // (key, what) for this property
    known_hit: BTreeSet<String>,
    pub machinery_errors: Vec<String>,
    /// replay mode: no evidence is written
    pub replay_mode: bool,
    /// sink mode: violations and machinery notes are dropped silently (host explorers running on
    /// behalf of another check's universal oracle)
    pub sink: bool,
}

impl Report {
    pub fn new(prop: &str, tier: Tier, level: &'static str) -> Self {
        let seed = std::env::var("VERIF_SEED")
            .ok()
            .and_then(|s| s.parse::<i64>().ok())
            .unwrap_or(0);
        let mut known = Vec::new();
        if let Ok(txt) = std::fs::read_to_string(format!("{VERIF_ROOT}/known_findings.json")) {
            if let Ok(v) = serde_json::from_str::<Value>(&txt) {
                if let Some(arr) = v.get("findings").and_then(|f| f.as_array()) {
                    for f in arr {
                        if f.get("property").and_then(|p| p.as_str()) == Some(prop) {
                            known.push((
                                f.get("key").and_then(|k| k.as_str()).unwrap_or("").to_string(),
                                f.get("what").and_then(|k| k.as_str()).unwrap_or("").to_string(),
                            ));
                        }
                    }
                }
            }
        }
        Report {
            prop: prop.to_string(),
            tier,
            level,
            seed,
            start: Instant::now(),
            evaluations: 0,
            nontrivial: 0,
            states: 0,
            transitions: 0,
            traces: 0,
            rule: String::new(),
            exhaustive: false,
            samples: Vec::new(),
            extra: Map::new(),
            counters: BTreeMap::new(),
            outcomes: BTreeSet::new(),
            assumptions: Vec::new(),
            violations: Vec::new(),
            violation_keys: BTreeSet::new(),
            suppressed_violations: 0,
            known,
            known_hit: BTreeSet::new(),
            machinery_errors: Vec::new(),
            replay_mode: false,
            sink: false,
        }
    }

    pub fn count(&mut self, name: &str) {
        *self.counters.entry(name.to_string()).or_insert(0) += 1;
    }
    pub fn count_n(&mut self, name: &str, n: u64) {
        *self.counters.entry(name.to_string()).or_insert(0) += n;
    }
    pub fn sample(&mut self, v: Value) {
        if self.samples.len() < 6 {
            self.samples.push(v);
        }
    }
    pub fn set(&mut self, k: &str, v: Value) {
        self.extra.insert(k.to_string(), v);
    }
    pub fn assume(&mut self, s: &str) {
        self.assumptions.push(s.to_string());
    }
    pub fn outcome(&mut self, h: u64) {
        if self.outcomes.len() < 2_000_000 {
            self.outcomes.insert(h);
        }
    }
    pub fn machinery(&mut self, what: String) {
        if self.sink {
            return;
        }
        eprintln!("MACHINERY {}: {}", self.prop, what);
        if self.machinery_errors.len() < 50 {
            self.machinery_errors.push(what);
        }
    }

    /// Record a violation. `class_key` identifies the failing input / call site / history narrowly;
    /// only one replay is written per class key and at most 25 keys are reported.
    /// Returns true if it is new (not a listed known finding, not a duplicate).
    pub fn violation(&mut self, class_key: &str, what: &str, case: Value) -> bool {
        if self.sink {
            return false;
        }
        if let Some((k, w)) = self.known.iter().find(|(k, _)| k == class_key) {
            if self.known_hit.insert(k.clone()) {
                println!("KNOWN-FINDING: property={} {} [{}]", self.prop, w, k);
            }
            return false;
        }
        if !self.violation_keys.insert(class_key.to_string()) {
            self.suppressed_violations += 1;
            return false;
        }
        if self.violations.len() >= 25 {
            self.suppressed_violations += 1;
            return false;
        }
        let dir = format!("{VERIF_ROOT}/replays/{}", self.prop);
        let _ = std::fs::create_dir_all(&dir);
        let fname: String = class_key
            .chars()
            .map(|c| if c.is_ascii_alphanumeric() || c == '-' || c == '_' || c == '.' { c } else { '_' })
            .take(100)
            .collect();
        let path = format!("{dir}/{fname}.json");
        let body = json!({"property": self.prop, "key": class_key, "what": what, "case": case});
        if !self.replay_mode {
            let _ = std::fs::write(&path, serde_json::to_string_pretty(&body).unwrap());
        }
        eprintln!("violation {} [{}]: {}", self.prop, class_key, what);
        if !self.replay_mode {
            if let Ok(mut g) = FOUND_SO_FAR.lock() {
                g.push((self.prop.clone(), path.clone()));
            }
        }
        self.violations.push(Violation {
            key: class_key.to_string(),
            what: what.to_string(),
            replay_path: path,
        });
        true
    }

    pub fn n_violations(&self) -> usize {
        self.violations.len()
    }

    /// Write evidence, print VIOLATION lines, and exit with the contract's code.
    pub fn finish(mut self) -> ! {
        let wall = self.start.elapsed().as_secs_f64();
        if self.replay_mode {
            for v in &self.violations {
                println!("VIOLATION property={} replay={}", self.prop, v.replay_path);
                println!("  {}: {}", v.key, v.what);
            }
            if !self.machinery_errors.is_empty() {
                std::process::exit(2);
            }
            std::process::exit(if self.violations.is_empty() { 0 } else { 1 });
        }
        let mut cov = Map::new();
        cov.insert("evaluations".into(), json!(self.evaluations.max(1)));
        cov.insert("distinct_nontrivial".into(), json!(self.nontrivial));
        cov.insert("rule".into(), json!(self.rule));
        cov.insert("states".into(), json!(self.states.max(1)));
        cov.insert("transitions".into(), json!(self.transitions.max(1)));
        cov.insert("traces_validated_against_impl".into(), json!(self.traces));
        cov.insert("exhaustive".into(), json!(self.exhaustive && self.machinery_errors.is_empty()));
        cov.insert("distinct_observed_outcomes".into(), json!(self.outcomes.len()));
        if self.samples.is_empty() {
            self.samples.push(json!("no case recorded"));
        }
        cov.insert("samples".into(), Value::Array(self.samples.clone()));
        let mut ctr = Map::new();
        for (k, v) in &self.counters {
            ctr.insert(k.clone(), json!(v));
        }
        cov.insert("counters".into(), Value::Object(ctr));
        cov.insert("suppressed_duplicate_violations".into(), json!(self.suppressed_violations));
        cov.insert("known_findings_hit".into(), json!(self.known_hit.iter().collect::<Vec<_>>()));
        if !self.machinery_errors.is_empty() {
            cov.insert("machinery_errors".into(), json!(self.machinery_errors));
        }
        for (k, v) in self.extra.iter() {
            cov.insert(k.clone(), v.clone());
        }
        let ev = json!({
            "property_id": self.prop,
            "tier": self.tier.name(),
            "seed": self.seed,
            "level": self.level,
            "coverage": Value::Object(cov),
            "assumptions": self.assumptions,
            "wall_s": wall,
            "violations": self.violations.len(),
        });
        let _ = std::fs::create_dir_all(format!("{VERIF_ROOT}/evidence"));
        let path = format!("{VERIF_ROOT}/evidence/{}.json", self.prop);
        if let Err(e) = std::fs::write(&path, serde_json::to_string_pretty(&ev).unwrap()) {
            eprintln!("cannot write evidence {path}: {e}");
            std::process::exit(2);
        }
        for v in &self.violations {
            println!("VIOLATION property={} replay={}", self.prop, v.replay_path);
        }
        println!(
            "{} {}: evaluations={} nontrivial={} states={} transitions={} outcomes={} violations={} known={} wall={:.1}s",
            self.prop,
            self.tier.name(),
            self.evaluations,
            self.nontrivial,
            self.states,
            self.transitions,
            self.outcomes.len(),
            self.violations.len(),
            self.known_hit.len(),
            wall
        );
        if !self.violations.is_empty() {
            std::process::exit(1);
        }
        if !self.machinery_errors.is_empty() {
            std::process::exit(2);
        }
        std::process::exit(0);
    }
}

/// Load the `case` value of a replay file.
pub fn load_replay(path: &str) -> Result<Value, String> {
    let txt = std::fs::read_to_string(path).map_err(|e| format!("{path}: {e}"))?;
    let v: Value = serde_json::from_str(&txt).map_err(|e| format!("{path}: {e}"))?;
    v.get("case").cloned().ok_or_else(|| format!("{path}: no case"))
}
