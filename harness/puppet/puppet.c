// puppet — the controllable target process of the minidump-writer model-checking harness.
//
// The main thread is the control thread: it reads one-line commands on stdin and answers one
// line on stdout ("ok ..." / "err ..."), and is otherwise blocked in read(2). Every other thread
// runs in its OWN copy of a position-independent 4 KiB code+data page (template below), parked in
// one of three bodies:
//   spin  : loads all 16 GPRs (incl. rsp), xmm0-15, mxcsr, x87 cw from its page, then busy-loops
//   block : loads the registers the syscall ABI preserves, then sleeps in futex(FUTEX_WAIT)
//   count : busy counter written to r12, [rsp+8] and a word in its page (snapshot coherence)
// The checker reads and writes the pages through /proc/<pid>/mem; nothing here depends on
// minidump-writer.
#define _GNU_SOURCE
#include <dirent.h>
#include <dlfcn.h>
#include <errno.h>
#include <fcntl.h>
#include <linux/futex.h>
#include <pthread.h>
#include <sched.h>
#include <signal.h>
#include <stdint.h>
#include <sys/auxv.h>
#include <stdio.h>
#include <stdlib.h>
#include <string.h>
#include <sys/mman.h>
#include <sys/prctl.h>
#include <sys/socket.h>
#include <sys/syscall.h>
#include <sys/types.h>
#include <unistd.h>

// ---------------------------------------------------------------------------------------------
// Thread page template. Data offsets are part of the checker<->puppet contract (see puppet.rs).
//   +0    entry spin      +512 entry block     +1024 entry count    +1280 common exit
//   +2048 gpr[16]  (rax rbx rcx rdx rsi rdi rbp rsp r8..r15)
//   +2176 xmm[16]  (16 bytes each)
//   +2432 mxcsr(4) +2436 fpucw(2)
//   +2440 ready(8) +2448 release(8) +2456 beat(8) +2464 saved rsp(8) +2472 futex word(8)
//   +2480 appword(8) +2488 saved rbx rbp r12 r13 r14 r15 (48)
//   +2544 loop_start offset(8) +2552 loop_end offset(8) +2560 offset just after `syscall` (filled by the puppet)
__asm__(
    ".pushsection .text\n"
    ".balign 4096\n"
    ".globl tpl_start\n"
    "tpl_start:\n"
    // ---------------- spin
    "tpl_spin:\n"
    "  mov %rbx, tpl_start+2488(%rip)\n"
    "  mov %rbp, tpl_start+2496(%rip)\n"
    "  mov %r12, tpl_start+2504(%rip)\n"
    "  mov %r13, tpl_start+2512(%rip)\n"
    "  mov %r14, tpl_start+2520(%rip)\n"
    "  mov %r15, tpl_start+2528(%rip)\n"
    "  mov %rsp, tpl_start+2464(%rip)\n"
    "  ldmxcsr tpl_start+2432(%rip)\n"
    "  fldcw tpl_start+2436(%rip)\n"
    "  movdqu tpl_start+2176(%rip), %xmm0\n"
    "  movdqu tpl_start+2192(%rip), %xmm1\n"
    "  movdqu tpl_start+2208(%rip), %xmm2\n"
    "  movdqu tpl_start+2224(%rip), %xmm3\n"
    "  movdqu tpl_start+2240(%rip), %xmm4\n"
    "  movdqu tpl_start+2256(%rip), %xmm5\n"
    "  movdqu tpl_start+2272(%rip), %xmm6\n"
    "  movdqu tpl_start+2288(%rip), %xmm7\n"
    "  movdqu tpl_start+2304(%rip), %xmm8\n"
    "  movdqu tpl_start+2320(%rip), %xmm9\n"
    "  movdqu tpl_start+2336(%rip), %xmm10\n"
    "  movdqu tpl_start+2352(%rip), %xmm11\n"
    "  movdqu tpl_start+2368(%rip), %xmm12\n"
    "  movdqu tpl_start+2384(%rip), %xmm13\n"
    "  movdqu tpl_start+2400(%rip), %xmm14\n"
    "  movdqu tpl_start+2416(%rip), %xmm15\n"
    "  mov tpl_start+2048(%rip), %rax\n"
    "  mov tpl_start+2056(%rip), %rbx\n"
    "  mov tpl_start+2064(%rip), %rcx\n"
    "  mov tpl_start+2072(%rip), %rdx\n"
    "  mov tpl_start+2080(%rip), %rsi\n"
    "  mov tpl_start+2088(%rip), %rdi\n"
    "  mov tpl_start+2096(%rip), %rbp\n"
    "  mov tpl_start+2112(%rip), %r8\n"
    "  mov tpl_start+2120(%rip), %r9\n"
    "  mov tpl_start+2128(%rip), %r10\n"
    "  mov tpl_start+2136(%rip), %r11\n"
    "  mov tpl_start+2144(%rip), %r12\n"
    "  mov tpl_start+2152(%rip), %r13\n"
    "  mov tpl_start+2160(%rip), %r14\n"
    "  mov tpl_start+2168(%rip), %r15\n"
    "  mov tpl_start+2104(%rip), %rsp\n"
    "tpl_spin_loop:\n"
    "  movb $1, tpl_start+2440(%rip)\n"
    "  incq tpl_start+2456(%rip)\n"
    "  cmpl $0, tpl_start+2448(%rip)\n"
    "  je tpl_spin_loop\n"
    "tpl_spin_loop_end:\n"
    "  jmp tpl_leave\n"
    // ---------------- block
    ".org tpl_start+512\n"
    "tpl_block:\n"
    "  mov %rbx, tpl_start+2488(%rip)\n"
    "  mov %rbp, tpl_start+2496(%rip)\n"
    "  mov %r12, tpl_start+2504(%rip)\n"
    "  mov %r13, tpl_start+2512(%rip)\n"
    "  mov %r14, tpl_start+2520(%rip)\n"
    "  mov %r15, tpl_start+2528(%rip)\n"
    "  mov %rsp, tpl_start+2464(%rip)\n"
    "  ldmxcsr tpl_start+2432(%rip)\n"
    "  fldcw tpl_start+2436(%rip)\n"
    "  movdqu tpl_start+2176(%rip), %xmm0\n"
    "  movdqu tpl_start+2192(%rip), %xmm1\n"
    "  movdqu tpl_start+2208(%rip), %xmm2\n"
    "  movdqu tpl_start+2224(%rip), %xmm3\n"
    "  movdqu tpl_start+2240(%rip), %xmm4\n"
    "  movdqu tpl_start+2256(%rip), %xmm5\n"
    "  movdqu tpl_start+2272(%rip), %xmm6\n"
    "  movdqu tpl_start+2288(%rip), %xmm7\n"
    "  movdqu tpl_start+2304(%rip), %xmm8\n"
    "  movdqu tpl_start+2320(%rip), %xmm9\n"
    "  movdqu tpl_start+2336(%rip), %xmm10\n"
    "  movdqu tpl_start+2352(%rip), %xmm11\n"
    "  movdqu tpl_start+2368(%rip), %xmm12\n"
    "  movdqu tpl_start+2384(%rip), %xmm13\n"
    "  movdqu tpl_start+2400(%rip), %xmm14\n"
    "  movdqu tpl_start+2416(%rip), %xmm15\n"
    "  mov tpl_start+2056(%rip), %rbx\n"
    "  mov tpl_start+2096(%rip), %rbp\n"
    "  mov tpl_start+2112(%rip), %r8\n"
    "  mov tpl_start+2120(%rip), %r9\n"
    "  mov tpl_start+2144(%rip), %r12\n"
    "  mov tpl_start+2152(%rip), %r13\n"
    "  mov tpl_start+2160(%rip), %r14\n"
    "  mov tpl_start+2168(%rip), %r15\n"
    "  lea tpl_start+2472(%rip), %rdi\n"
    "  mov $128, %esi\n" /* FUTEX_WAIT | FUTEX_PRIVATE_FLAG */
    "  xor %edx, %edx\n"
    "  xor %r10d, %r10d\n"
    "tpl_block_loop:\n"
    "  movb $1, tpl_start+2440(%rip)\n"
    "  mov $202, %eax\n"
    "  syscall\n"
    "tpl_block_after_syscall:\n"
    "  incq tpl_start+2456(%rip)\n"
    "  cmpl $0, tpl_start+2448(%rip)\n"
    "  je tpl_block_loop\n"
    "tpl_block_loop_end:\n"
    "  jmp tpl_leave\n"
    // ---------------- count
    ".org tpl_start+1024\n"
    "tpl_count:\n"
    "  mov %rbx, tpl_start+2488(%rip)\n"
    "  mov %rbp, tpl_start+2496(%rip)\n"
    "  mov %r12, tpl_start+2504(%rip)\n"
    "  mov %r13, tpl_start+2512(%rip)\n"
    "  mov %r14, tpl_start+2520(%rip)\n"
    "  mov %r15, tpl_start+2528(%rip)\n"
    "  mov %rsp, tpl_start+2464(%rip)\n"
    "  sub $128, %rsp\n"
    "  xor %r12d, %r12d\n"
    "tpl_count_loop:\n"
    "  inc %r12\n"
    "  mov %r12, 8(%rsp)\n"
    "  mov %r12, tpl_start+2480(%rip)\n"
    "  movb $1, tpl_start+2440(%rip)\n"
    "  cmpl $0, tpl_start+2448(%rip)\n"
    "  je tpl_count_loop\n"
    "tpl_count_loop_end:\n"
    "  jmp tpl_leave\n"
    // ---------------- common exit: restore the real stack and callee-saved registers, return 0
    ".org tpl_start+1280\n"
    "tpl_leave:\n"
    "  mov tpl_start+2464(%rip), %rsp\n"
    "  mov tpl_start+2488(%rip), %rbx\n"
    "  mov tpl_start+2496(%rip), %rbp\n"
    "  mov tpl_start+2504(%rip), %r12\n"
    "  mov tpl_start+2512(%rip), %r13\n"
    "  mov tpl_start+2520(%rip), %r14\n"
    "  mov tpl_start+2528(%rip), %r15\n"
    "  xor %eax, %eax\n"
    "  ret\n"
    ".org tpl_start+2048\n"
    "  .fill 2048, 1, 0\n"
    "tpl_end:\n"
    ".popsection\n");

extern char tpl_start[], tpl_spin[], tpl_spin_loop[], tpl_spin_loop_end[], tpl_block[], tpl_block_loop[], tpl_block_after_syscall[],
    tpl_block_loop_end[], tpl_count[], tpl_count_loop[], tpl_count_loop_end[], tpl_end[];

#define OFF_GPR 2048
#define OFF_XMM 2176
#define OFF_MXCSR 2432
#define OFF_FPUCW 2436
#define OFF_READY 2440
#define OFF_RELEASE 2448
#define OFF_BEAT 2456
#define OFF_FUTEX 2472
#define OFF_LOOP_START 2544
#define OFF_LOOP_END 2552
#define OFF_SYSCALL_END 2560

#define MAXT 80
#define STACK_PAGES 16
#define ALT_PAGES 4

struct thr {
  int used;
  int kind; // 0 spin 1 block 2 count
  pthread_t pt;
  volatile pid_t tid;
  char *page;
  char *stack; // lowest address of the rw stack area
  char *alt;
  int started;
  int joined;
};
static struct thr T[MAXT];

// signal log: (tid, signo) pairs, appended by the handler
#define LOGCAP 4096
struct sigrec {
  int32_t tid;
  int32_t signo;
};
static struct sigrec siglog[LOGCAP];
static volatile int64_t siglog_n;

static void handler(int signo) {
  int64_t i = __atomic_fetch_add(&siglog_n, 1, __ATOMIC_SEQ_CST);
  if (i < LOGCAP) {
    siglog[i].tid = (int32_t)syscall(SYS_gettid);
    siglog[i].signo = signo;
  }
}

struct targ {
  struct thr *t;
};

static void *trampoline(void *arg) {
  struct thr *t = (struct thr *)arg;
  stack_t ss;
  ss.ss_sp = t->alt;
  ss.ss_size = ALT_PAGES * 4096;
  ss.ss_flags = 0;
  sigaltstack(&ss, NULL);
  t->tid = (pid_t)syscall(SYS_gettid);
  void *(*body)(void *) = (void *(*)(void *))(t->page + (t->kind == 0 ? 0 : t->kind == 1 ? 512 : 1024));
  // default rsp slot = a valid address inside this thread's own stack, 16-byte aligned
  // (the checker may overwrite the slot before `start`)
  return body(NULL);
}

static char *xmmap(size_t len, int prot, int flags) {
  char *p = mmap(NULL, len, prot, flags, -1, 0);
  return p == MAP_FAILED ? NULL : p;
}

static int hexval(int c) {
  if (c >= '0' && c <= '9') return c - '0';
  if (c >= 'a' && c <= 'f') return c - 'a' + 10;
  if (c >= 'A' && c <= 'F') return c - 'A' + 10;
  return -1;
}

static size_t unhex(const char *s, unsigned char *out, size_t cap) {
  size_t n = 0;
  while (s[0] && s[1] && n < cap) {
    int a = hexval(s[0]), b = hexval(s[1]);
    if (a < 0 || b < 0) break;
    out[n++] = (unsigned char)(a * 16 + b);
    s += 2;
  }
  return n;
}

static void reply(const char *fmt, ...) __attribute__((format(printf, 1, 2)));
#include <stdarg.h>
static void reply(const char *fmt, ...) {
  char buf[1024];
  va_list ap;
  va_start(ap, fmt);
  int n = vsnprintf(buf, sizeof buf - 1, fmt, ap);
  va_end(ap);
  buf[n++] = '\n';
  ssize_t w = write(1, buf, n);
  (void)w;
}

static int prot_of(const char *s) {
  int p = 0;
  if (strchr(s, 'r')) p |= PROT_READ;
  if (strchr(s, 'w')) p |= PROT_WRITE;
  if (strchr(s, 'x')) p |= PROT_EXEC;
  return p;
}

static inline uint8_t pattern_byte(uint64_t a) {
  uint64_t x = a * 0x9E3779B97F4A7C15ull;
  return (uint8_t)((x >> 56) ^ (x >> 24) ^ a);
}

// A thread that is slow to act on a stop request: it vforks a child that sleeps `ms` milliseconds,
// so the thread sits in an uninterruptible (killable-only) kernel wait for that long.
static volatile int vfork_tid;
static volatile uint64_t vfork_done;
#include <sys/wait.h>
#include <time.h>
static void *vfork_thread(void *arg) {
  long ms = (long)arg;
  vfork_tid = (int)syscall(SYS_gettid);
  pid_t c = vfork();
  if (c == 0) {
    struct timespec ts = {ms / 1000, (ms % 1000) * 1000000L};
    syscall(SYS_nanosleep, &ts, 0);
    _exit(0);
  }
  int st;
  if (c > 0) waitpid(c, &st, 0);
  __atomic_add_fetch(&vfork_done, 1, __ATOMIC_SEQ_CST);
  for (;;) pause();
  return NULL;
}

static void *burn_thread(void *arg) {
  *(long *)arg = syscall(SYS_gettid);
  return NULL;
}

// a thread with a descriptor table of its own: it leaves the shared table, opens two files in its private
// one and sleeps for good
static void *unshared_fd_thread(void *arg) {
  long ok = unshare(CLONE_FILES) == 0;
  if (ok) {
    (void)open("/dev/zero", O_RDONLY);
    (void)open("/dev/urandom", O_RDONLY);
  }
  __atomic_store_n((long *)arg, ok ? syscall(SYS_gettid) : -1, __ATOMIC_SEQ_CST);
  for (;;) pause();
  return NULL;
}

static void cmd_mkthread(const char *kind) {
  int k = !strcmp(kind, "spin") ? 0 : !strcmp(kind, "block") ? 1 : !strcmp(kind, "count") ? 2 : -1;
  if (k < 0) return reply("err kind");
  int i;
  for (i = 0; i < MAXT && T[i].used; i++) {
  }
  if (i == MAXT) return reply("err full");
  struct thr *t = &T[i];
  memset(t, 0, sizeof *t);
  t->used = 1;
  t->kind = k;
  // code+data page with a PROT_NONE page on each side so that it is a /proc/maps line of its own
  char *area = xmmap(3 * 4096, PROT_NONE, MAP_PRIVATE | MAP_ANONYMOUS);
  if (!area) return reply("err mmap");
  t->page = area + 4096;
  mprotect(t->page, 4096, PROT_READ | PROT_WRITE | PROT_EXEC);
  memcpy(t->page, tpl_start, 4096);
  // stack: [guard][STACK_PAGES rw][guard]; alt stack likewise
  char *sa = xmmap((STACK_PAGES + 2) * 4096, PROT_NONE, MAP_PRIVATE | MAP_ANONYMOUS);
  char *aa = xmmap((ALT_PAGES + 2) * 4096, PROT_NONE, MAP_PRIVATE | MAP_ANONYMOUS);
  if (!sa || !aa) return reply("err mmap");
  t->stack = sa + 4096;
  mprotect(t->stack, STACK_PAGES * 4096, PROT_READ | PROT_WRITE);
  t->alt = aa + 4096;
  mprotect(t->alt, ALT_PAGES * 4096, PROT_READ | PROT_WRITE);
  // defaults: rsp slot inside the own stack, mxcsr / fpucw architectural defaults
  uint64_t *gpr = (uint64_t *)(t->page + OFF_GPR);
  gpr[7] = (uint64_t)(t->stack + (STACK_PAGES - 4) * 4096 + 0x800);
  *(uint32_t *)(t->page + OFF_MXCSR) = 0x1f80;
  *(uint16_t *)(t->page + OFF_FPUCW) = 0x037f;
  char *ls = k == 0 ? tpl_spin_loop : k == 1 ? tpl_block_loop : tpl_count_loop;
  char *le = k == 0 ? tpl_spin_loop_end : k == 1 ? tpl_block_loop_end : tpl_count_loop_end;
  *(uint64_t *)(t->page + OFF_LOOP_START) = (uint64_t)(ls - tpl_start);
  *(uint64_t *)(t->page + OFF_LOOP_END) = (uint64_t)(le - tpl_start);
  *(uint64_t *)(t->page + OFF_SYSCALL_END) = (uint64_t)(tpl_block_after_syscall - tpl_start);
  reply("ok %d %p %p %p", i, (void *)t->page, (void *)t->stack, (void *)(t->stack + STACK_PAGES * 4096));
}

static void cmd_start(int i) {
  if (i < 0 || i >= MAXT || !T[i].used || T[i].started) return reply("err idx");
  struct thr *t = &T[i];
  pthread_attr_t a;
  pthread_attr_init(&a);
  pthread_attr_setstack(&a, t->stack, STACK_PAGES * 4096);
  if (pthread_create(&t->pt, &a, trampoline, t) != 0) return reply("err pthread_create %d", errno);
  t->started = 1;
  volatile char *ready = t->page + OFF_READY;
  for (long spins = 0; !*ready; spins++) {
    if (spins > 20000000) return reply("err thread did not become ready");
    if (spins > 1000) usleep(50);
  }
  reply("ok %d", (int)t->tid);
}

static void cmd_release(int i, int join) {
  if (i < 0 || i >= MAXT || !T[i].used || !T[i].started || T[i].joined) return reply("err idx");
  struct thr *t = &T[i];
  *(volatile uint64_t *)(t->page + OFF_RELEASE) = 1;
  if (t->kind == 1) {
    *(volatile uint32_t *)(t->page + OFF_FUTEX) = 1;
    syscall(SYS_futex, t->page + OFF_FUTEX, FUTEX_WAKE | FUTEX_PRIVATE_FLAG, 1, NULL, NULL, 0);
  }
  if (join) {
    pthread_join(t->pt, NULL);
    t->joined = 1;
  }
  reply("ok");
}

static void cmd_wake(int i) {
  if (i < 0 || i >= MAXT || !T[i].used || T[i].kind != 1) return reply("err idx");
  long r = syscall(SYS_futex, T[i].page + OFF_FUTEX, FUTEX_WAKE | FUTEX_PRIVATE_FLAG, 1, NULL, NULL, 0);
  reply("ok %ld", r);
}

int main(int argc, char **argv) {
  (void)argc;
  (void)argv;
  struct sigaction sa;
  memset(&sa, 0, sizeof sa);
  sa.sa_handler = handler;
  sa.sa_flags = SA_ONSTACK | SA_RESTART;
  sigemptyset(&sa.sa_mask);
  int sigs[] = {SIGUSR1, SIGUSR2, SIGRTMIN, SIGRTMIN + 1, SIGRTMIN + 2, SIGRTMIN + 3};
  for (unsigned i = 0; i < sizeof sigs / sizeof sigs[0]; i++) sigaction(sigs[i], &sa, NULL);
  signal(SIGPIPE, SIG_IGN);
  prctl(PR_SET_PDEATHSIG, SIGKILL);
  reply("hello %d %p %p %d %p", (int)getpid(), (void *)siglog, (void *)&siglog_n, SIGRTMIN, (void *)T);

  static char line[70000];
  size_t have = 0;
  for (;;) {
    // read one line
    char *nl;
    while (!(nl = memchr(line, '\n', have))) {
      if (have >= sizeof line - 1) have = 0;
      ssize_t r = read(0, line + have, sizeof line - 1 - have);
      if (r == 0) _exit(0);
      if (r < 0) {
        if (errno == EINTR) continue;
        _exit(0);
      }
      have += (size_t)r;
    }
    *nl = 0;
    char cmd[32] = {0}, a1[65000] = {0}, a2[256] = {0}, a3[64] = {0}, a4[64] = {0};
    int nf = sscanf(line, "%31s %64999s %255s %63s %63s", cmd, a1, a2, a3, a4);
    (void)nf;
    if (!strcmp(cmd, "ping")) {
      reply("ok");
    } else if (!strcmp(cmd, "mkthread")) {
      cmd_mkthread(a1);
    } else if (!strcmp(cmd, "start")) {
      cmd_start(atoi(a1));
    } else if (!strcmp(cmd, "exit")) {
      cmd_release(atoi(a1), 1);
    } else if (!strcmp(cmd, "release")) {
      cmd_release(atoi(a1), 0);
    } else if (!strcmp(cmd, "wake")) {
      cmd_wake(atoi(a1));
    } else if (!strcmp(cmd, "name")) {
      // name <tid> <hex bytes>   (tid 0 = main thread)
      unsigned char nb[32];
      size_t n = unhex(a2, nb, 15);
      char path[64];
      int tid = atoi(a1);
      snprintf(path, sizeof path, "/proc/self/task/%d/comm", tid ? tid : (int)getpid());
      int fd = open(path, O_WRONLY);
      if (fd < 0) {
        reply("err open comm %d", errno);
      } else {
        ssize_t w = write(fd, nb, n);
        close(fd);
        if (w < 0) reply("err write comm %d", errno);
        else reply("ok");
      }
    } else if (!strcmp(cmd, "pattern")) {
      // pattern <pages> <tail: none|protnone|hole> [prot]
      size_t pages = strtoul(a1, NULL, 0);
      char *base = xmmap((pages + 2) * 4096, PROT_NONE, MAP_PRIVATE | MAP_ANONYMOUS);
      if (!base) {
        reply("err mmap %d", errno);
      } else {
        char *p = base + 4096;
        mprotect(p, pages * 4096, PROT_READ | PROT_WRITE);
        for (size_t i = 0; i < pages * 4096; i++) p[i] = (char)pattern_byte((uint64_t)(uintptr_t)(p + i));
        if (!strcmp(a2, "hole")) munmap(p + pages * 4096, 4096);
        if (a3[0]) mprotect(p, pages * 4096, prot_of(a3));
        reply("ok %p", (void *)p);
      }
    } else if (!strcmp(cmd, "pattern_at")) {
      // pattern_at <addr> <pages> [prot]: a pattern region at a fixed (e.g. low) address, PROT_NONE pages around it
      uintptr_t addr = strtoull(a1, NULL, 0);
      size_t pages = strtoul(a2, NULL, 0);
      char *base = mmap((void *)(addr - 4096), (pages + 2) * 4096, PROT_NONE, MAP_PRIVATE | MAP_ANONYMOUS | MAP_FIXED_NOREPLACE, -1, 0);
      if (base == MAP_FAILED) {
        reply("err mmap %d", errno);
      } else {
        char *p = base + 4096;
        mprotect(p, pages * 4096, PROT_READ | PROT_WRITE);
        for (size_t i = 0; i < pages * 4096; i++) p[i] = (char)pattern_byte((uint64_t)(uintptr_t)(p + i));
        munmap(p + pages * 4096, 4096);
        if (a3[0]) mprotect(p, pages * 4096, prot_of(a3));
        reply("ok %p", (void *)p);
      }
    } else if (!strcmp(cmd, "hole_at")) {
      // hole_at <addr> <len>: replace whatever is mapped there by an inaccessible anonymous private mapping
      uintptr_t addr = strtoull(a1, NULL, 0);
      size_t len = strtoull(a2, NULL, 0);
      void *r = mmap((void *)addr, len, PROT_NONE, MAP_PRIVATE | MAP_ANONYMOUS | MAP_FIXED, -1, 0);
      if (r == MAP_FAILED) reply("err mmap %d", errno);
      else reply("ok %p", r);
    } else if (!strcmp(cmd, "mprotect")) {
      uintptr_t addr = strtoull(a1, NULL, 0);
      size_t len = strtoull(a2, NULL, 0);
      int r = mprotect((void *)addr, len, prot_of(a3));
      if (r) reply("err %d", errno);
      else reply("ok");
    } else if (!strcmp(cmd, "unmap")) {
      uintptr_t addr = strtoull(a1, NULL, 0);
      size_t len = strtoull(a2, NULL, 0);
      int r = munmap((void *)addr, len);
      if (r) reply("err %d", errno);
      else reply("ok");
    } else if (!strcmp(cmd, "mapfile")) {
      // mapfile <hex path> <offset> <len> <prot>[s]   (trailing 's' = MAP_SHARED)
      unsigned char path[4096];
      size_t n = unhex(a1, path, sizeof path - 1);
      path[n] = 0;
      off_t off = strtoull(a2, NULL, 0);
      size_t len = strtoull(a3, NULL, 0);
      int fd = open((char *)path, strchr(a4, 'w') && strchr(a4, 's') ? O_RDWR : O_RDONLY);
      if (fd < 0) {
        reply("err open %d", errno);
      } else {
        // reserve len+2 pages so the file mapping has PROT_NONE neighbours
        char *base = xmmap(len + 2 * 4096, PROT_NONE, MAP_PRIVATE | MAP_ANONYMOUS);
        void *p = base ? mmap(base + 4096, len, prot_of(a4), (strchr(a4, 's') ? MAP_SHARED : MAP_PRIVATE) | MAP_FIXED, fd, off) : MAP_FAILED;
        close(fd);
        if (p == MAP_FAILED) reply("err mmap %d", errno);
        else reply("ok %p", p);
      }
    } else if (!strcmp(cmd, "shm")) {
      size_t len = strtoull(a1, NULL, 0);
      char *base = xmmap(len + 2 * 4096, PROT_NONE, MAP_PRIVATE | MAP_ANONYMOUS);
      void *p = base ? mmap(base + 4096, len, prot_of(a2[0] ? a2 : "rw"), MAP_SHARED | MAP_ANONYMOUS | MAP_FIXED, -1, 0) : MAP_FAILED;
      if (p == MAP_FAILED) reply("err mmap %d", errno);
      else reply("ok %p", p);
    } else if (!strcmp(cmd, "dlopen")) {
      unsigned char path[4096];
      size_t n = unhex(a1, path, sizeof path - 1);
      path[n] = 0;
      void *h = dlopen((char *)path, RTLD_NOW | RTLD_LOCAL);
      if (!h) reply("err dlopen");
      else reply("ok %p", h);
    } else if (!strcmp(cmd, "fd")) {
      // fd file|unlinked|pipe|socket|dir|devnull [hex path]
      unsigned char path[4096];
      size_t n = unhex(a2, path, sizeof path - 1);
      path[n] = 0;
      int fd = -1;
      if (!strcmp(a1, "file")) fd = open((char *)path, O_RDONLY);
      else if (!strcmp(a1, "unlinked")) {
        fd = open((char *)path, O_RDWR | O_CREAT, 0600);
        if (fd >= 0) unlink((char *)path);
      } else if (!strcmp(a1, "pipe")) {
        int p[2];
        if (pipe(p) == 0) fd = p[0];
      } else if (!strcmp(a1, "socket")) fd = socket(AF_UNIX, SOCK_STREAM, 0);
      else if (!strcmp(a1, "dir")) fd = open((char *)path, O_RDONLY | O_DIRECTORY);
      else if (!strcmp(a1, "devnull")) fd = open("/dev/null", O_RDWR);
      else if (!strcmp(a1, "eventfd")) fd = (int)syscall(SYS_eventfd2, 0, 0);
      else if (!strcmp(a1, "epoll")) fd = (int)syscall(SYS_epoll_create1, 0);
      else if (!strcmp(a1, "high")) {
        // a descriptor with a large number (the highest the soft limit allows, at most 1000)
        int lo = open("/dev/null", O_RDONLY);
        for (int want = 1000; want > 64 && fd < 0; want -= 100) fd = dup2(lo, want);
        if (lo >= 0) close(lo);
      } else if (!strcmp(a1, "creat")) fd = open((char *)path, O_RDWR | O_CREAT | O_APPEND, 0640);
      if (fd < 0) reply("err fd %d", errno);
      else reply("ok %d", fd);
    } else if (!strcmp(cmd, "close")) {
      close(atoi(a1));
      reply("ok");
    } else if (!strcmp(cmd, "auxv")) {
      reply("ok %lu %lu %lu %lu", getauxval(3), getauxval(5), getauxval(33), getauxval(9));
    } else if (!strcmp(cmd, "vforkwait")) {
      pthread_t th;
      vfork_tid = 0;
      if (pthread_create(&th, NULL, vfork_thread, (void *)strtol(a1, NULL, 0))) reply("err pthread_create");
      else {
        while (!vfork_tid) usleep(100);
        reply("ok %d %p", vfork_tid, (void *)&vfork_done);
      }
    } else if (!strcmp(cmd, "morehandlers")) {
      // logging handlers for ten standard signals numbered below SIGSTOP (delivered before a pending stop)
      struct sigaction sa2;
      memset(&sa2, 0, sizeof sa2);
      sa2.sa_handler = handler;
      sa2.sa_flags = SA_ONSTACK | SA_RESTART;
      sigemptyset(&sa2.sa_mask);
      int more[] = {SIGHUP, SIGINT, SIGQUIT, SIGABRT, SIGUSR1, SIGUSR2, SIGPIPE, SIGALRM, SIGTERM, SIGSTKFLT};
      for (unsigned i = 0; i < sizeof more / sizeof more[0]; i++) sigaction(more[i], &sa2, NULL);
      reply("ok");
    } else if (!strcmp(cmd, "burn_tids")) {
      // burn_tids <n>: create and join n short-lived threads (moves the kernel's pid counter); replies the last tid seen
      long n = strtol(a1, NULL, 0), last = 0;
      for (long i = 0; i < n; i++) {
        pthread_t th;
        if (pthread_create(&th, NULL, burn_thread, &last)) break;
        pthread_join(th, NULL);
      }
      reply("ok %ld", last);
    } else if (!strcmp(cmd, "unshared_fd_thread")) {
      static long utid;
      utid = 0;
      pthread_t th;
      if (pthread_create(&th, NULL, unshared_fd_thread, &utid)) {
        reply("err pthread_create");
      } else {
        while (__atomic_load_n(&utid, __ATOMIC_SEQ_CST) == 0) usleep(200);
        // the process's own table moves on afterwards
        (void)open("/dev/null", O_RDONLY);
        if (utid < 0) reply("err unshare");
        else reply("ok %ld", utid);
      }
    } else if (!strcmp(cmd, "newpgrp")) {
      // own process group (not orphaned: the parent sits in another group of the same session), so that
      // job-control stop signals (SIGTSTP ...) are not ignored
      reply(setpgid(0, 0) == 0 ? "ok" : "err setpgid");
    } else if (!strcmp(cmd, "leaderexit")) {
      reply("ok");
      pthread_exit(NULL);
    } else {
      reply("err unknown");
    }
    size_t used = (size_t)(nl - line) + 1;
    memmove(line, line + used, have - used);
    have -= used;
  }
}
