//! Checker-side controller of the puppet target process (see harness/puppet/puppet.c).

use std::ffi::OsString;
use std::fs::File;
use std::io::{BufRead, BufReader, Write};
use std::os::unix::fs::FileExt;
use std::os::unix::process::CommandExt;
use std::process::{Child, ChildStdin, ChildStdout, Command, Stdio};

pub const PUPPET_BIN: &str = "/verif/target/puppet";

// data offsets inside a thread page (contract with puppet.c)
pub const OFF_ENTRY_BLOCK: u64 = 512;
pub const OFF_GPR: u64 = 2048;
pub const OFF_XMM: u64 = 2176;
pub const OFF_MXCSR: u64 = 2432;
pub const OFF_FPUCW: u64 = 2436;
pub const OFF_READY: u64 = 2440;
pub const OFF_RELEASE: u64 = 2448;
pub const OFF_BEAT: u64 = 2456;
pub const OFF_FUTEX: u64 = 2472;
pub const OFF_APPWORD: u64 = 2480;
pub const OFF_LOOP_START: u64 = 2544;
pub const OFF_LOOP_END: u64 = 2552;
pub const OFF_SYSCALL_END: u64 = 2560;

pub const STACK_PAGES: u64 = 16;

// gpr slot indices
pub const RAX: usize = 0;
pub const RBX: usize = 1;
pub const RCX: usize = 2;
pub const RDX: usize = 3;
pub const RSI: usize = 4;
pub const RDI: usize = 5;
pub const RBP: usize = 6;
pub const RSP: usize = 7;
pub const R8: usize = 8;
pub const GPR_NAMES: [&str; 16] = ["rax", "rbx", "rcx", "rdx", "rsi", "rdi", "rbp", "rsp", "r8", "r9", "r10", "r11", "r12", "r13", "r14", "r15"];

#[derive(Clone, Copy, Debug, PartialEq, Eq)]
pub enum Kind {
    Spin,
    Block,
    Count,
}

impl Kind {
    pub fn name(self) -> &'static str {
        match self {
            Kind::Spin => "spin",
            Kind::Block => "block",
            Kind::Count => "count",
        }
    }
}

#[derive(Clone, Debug)]
pub struct PThread {
    pub idx: usize,
    pub kind: Kind,
    pub tid: i32,
    pub page: u64,
    pub stack_lo: u64,
    pub stack_hi: u64,
    pub alive: bool,
}

pub struct Puppet {
    child: Child,
    stdin: ChildStdin,
    stdout: BufReader<ChildStdout>,
    pub pid: i32,
    mem: File,
    pub siglog: u64,
    pub siglog_n: u64,
    pub sigrtmin: i32,
    pub threads: Vec<PThread>,
    /// threads that are not template threads (e.g. the vfork waiter); the dumper may touch them too
    pub extra_tids: Vec<i32>,
}

fn parse_ptr(s: &str) -> u64 {
    u64::from_str_radix(s.trim_start_matches("0x"), 16).unwrap_or(0)
}

pub fn hex(b: &[u8]) -> String {
    mdv_core::hex(b)
}

impl Puppet {
    pub fn spawn() -> Puppet {
        Self::spawn_with(&[], None)
    }

    pub fn spawn_with(args: &[OsString], env: Option<&[(OsString, OsString)]>) -> Puppet {
        Self::spawn_from(PUPPET_BIN, args, env)
    }

    /// Spawn the puppet program from another executable file (e.g. the position-dependent build, or a
    /// copy that is unlinked afterwards).
    pub fn spawn_from(exe: &str, args: &[OsString], env: Option<&[(OsString, OsString)]>) -> Puppet {
        let mut c = Command::new(exe);
        c.args(args).stdin(Stdio::piped()).stdout(Stdio::piped()).stderr(Stdio::null());
        if let Some(e) = env {
            c.env_clear();
            for (k, v) in e {
                c.env(k, v);
            }
        }
        // own process group: a stray signal to the group never reaches the checker
        c.process_group(0);
        // ETXTBSY: a freshly copied executable can still be open for writing in a child that another
        // worker thread forked a moment ago (the descriptor leaks across fork until its exec): retry
        let mut child = {
            let mut tries = 0;
            loop {
                match c.spawn() {
                    Ok(ch) => break ch,
                    Err(e) if e.raw_os_error() == Some(libc::ETXTBSY) && tries < 200 => {
                        tries += 1;
                        std::thread::sleep(std::time::Duration::from_millis(5));
                    }
                    Err(e) => panic!("cannot spawn puppet {exe} (run ./build.sh): {e}"),
                }
            }
        };
        let stdin = child.stdin.take().unwrap();
        let mut stdout = BufReader::new(child.stdout.take().unwrap());
        let mut line = String::new();
        stdout.read_line(&mut line).expect("puppet hello");
        let t: Vec<&str> = line.split_whitespace().collect();
        assert!(t.len() >= 5 && t[0] == "hello", "bad puppet hello: {line:?}");
        let pid: i32 = t[1].parse().unwrap();
        // Pin the whole puppet (threads inherit) to one CPU: glibc keeps an rseq area in every
        // thread's TCB - which lies inside the captured stack mapping - and the kernel rewrites its
        // cpu_id on migration; with one CPU two dumps of a quiescent puppet see identical memory.
        unsafe {
            let ncpu = libc::sysconf(libc::_SC_NPROCESSORS_ONLN).max(1) as usize;
            let mut set: libc::cpu_set_t = std::mem::zeroed();
            libc::CPU_SET(pid as usize % ncpu, &mut set);
            libc::sched_setaffinity(pid, std::mem::size_of::<libc::cpu_set_t>(), &set);
        }
        let mem = std::fs::OpenOptions::new().read(true).write(true).open(format!("/proc/{pid}/mem")).expect("open puppet mem");
        Puppet { child, stdin, stdout, pid, mem, siglog: parse_ptr(t[2]), siglog_n: parse_ptr(t[3]), sigrtmin: t[4].parse().unwrap(), threads: Vec::new(), extra_tids: Vec::new() }
    }

    /// Let the puppet (and the threads it creates from now on) run on every CPU again. For targets
    /// with several busy threads whose memory is never compared between two dumps.
    pub fn unpin(&self) {
        unsafe {
            let mut set: libc::cpu_set_t = std::mem::zeroed();
            let ncpu = libc::sysconf(libc::_SC_NPROCESSORS_ONLN).max(1) as usize;
            for c in 0..ncpu {
                libc::CPU_SET(c, &mut set);
            }
            for tid in self.kernel_tids() {
                libc::sched_setaffinity(tid, std::mem::size_of::<libc::cpu_set_t>(), &set);
            }
        }
    }

    /// Send one command line; returns the tokens after "ok", or Err(reply).
    pub fn cmd(&mut self, line: &str) -> Result<Vec<String>, String> {
        self.stdin.write_all(line.as_bytes()).map_err(|e| e.to_string())?;
        self.stdin.write_all(b"\n").map_err(|e| e.to_string())?;
        self.stdin.flush().map_err(|e| e.to_string())?;
        let mut reply = String::new();
        if self.stdout.buffer().is_empty() {
            // never block forever on a target that is stopped or dead
            use std::os::fd::AsRawFd;
            let mut pfd = libc::pollfd { fd: self.stdout.get_ref().as_raw_fd(), events: libc::POLLIN, revents: 0 };
            let r = unsafe { libc::poll(&mut pfd, 1, 30_000) };
            if r <= 0 {
                return Err(format!("puppet {} did not answer {line:?} within 30 s", self.pid));
            }
        }
        self.stdout.read_line(&mut reply).map_err(|e| e.to_string())?;
        let t: Vec<String> = reply.split_whitespace().map(|s| s.to_string()).collect();
        if t.first().map(|s| s.as_str()) == Some("ok") {
            Ok(t[1..].to_vec())
        } else {
            Err(format!("puppet replied {reply:?} to {line:?}"))
        }
    }

    /// Send a command without waiting for the reply (placement callbacks); pair with `recv`.
    pub fn send(&mut self, line: &str) {
        let _ = self.stdin.write_all(line.as_bytes());
        let _ = self.stdin.write_all(b"\n");
        let _ = self.stdin.flush();
    }
    pub fn recv(&mut self) -> String {
        let mut reply = String::new();
        let _ = self.stdout.read_line(&mut reply);
        reply
    }

    pub fn read(&self, addr: u64, len: usize) -> Vec<u8> {
        let mut b = vec![0u8; len];
        let mut got = 0;
        while got < len {
            match self.mem.read_at(&mut b[got..], addr + got as u64) {
                Ok(0) | Err(_) => break,
                Ok(n) => got += n,
            }
        }
        b.truncate(got);
        b
    }

    pub fn write(&self, addr: u64, data: &[u8]) {
        self.mem.write_all_at(data, addr).expect("write puppet memory");
    }

    pub fn read_u64(&self, addr: u64) -> u64 {
        let b = self.read(addr, 8);
        if b.len() == 8 {
            u64::from_le_bytes(b.try_into().unwrap())
        } else {
            0
        }
    }

    pub fn mkthread(&mut self, kind: Kind) -> usize {
        let r = self.cmd(&format!("mkthread {}", kind.name())).expect("mkthread");
        let idx: usize = r[0].parse().unwrap();
        let t = PThread { idx, kind, tid: 0, page: parse_ptr(&r[1]), stack_lo: parse_ptr(&r[2]), stack_hi: parse_ptr(&r[3]), alive: false };
        self.threads.push(t);
        self.threads.len() - 1
    }

    pub fn set_gpr(&self, t: usize, reg: usize, val: u64) {
        self.write(self.threads[t].page + OFF_GPR + 8 * reg as u64, &val.to_le_bytes());
    }
    pub fn gpr(&self, t: usize, reg: usize) -> u64 {
        self.read_u64(self.threads[t].page + OFF_GPR + 8 * reg as u64)
    }
    pub fn set_xmm(&self, t: usize, i: usize, val: u128) {
        self.write(self.threads[t].page + OFF_XMM + 16 * i as u64, &val.to_le_bytes());
    }
    pub fn set_mxcsr(&self, t: usize, v: u32) {
        self.write(self.threads[t].page + OFF_MXCSR, &v.to_le_bytes());
    }
    pub fn set_fpucw(&self, t: usize, v: u16) {
        self.write(self.threads[t].page + OFF_FPUCW, &v.to_le_bytes());
    }

    pub fn start(&mut self, t: usize) -> i32 {
        let idx = self.threads[t].idx;
        let r = self.cmd(&format!("start {idx}")).expect("start");
        let tid: i32 = r[0].parse().unwrap();
        self.threads[t].tid = tid;
        self.threads[t].alive = true;
        tid
    }

    /// Create and start a thread with default registers.
    pub fn add_thread(&mut self, kind: Kind) -> usize {
        let t = self.mkthread(kind);
        self.start(t);
        t
    }

    /// Ask the main thread to release and join thread t.
    pub fn exit_thread(&mut self, t: usize) {
        let idx = self.threads[t].idx;
        self.cmd(&format!("exit {idx}")).expect("exit");
        self.threads[t].alive = false;
    }

    /// Release a spin/count thread by writing its release flag directly (no main-thread help).
    pub fn release_direct(&mut self, t: usize) {
        self.write(self.threads[t].page + OFF_RELEASE, &1u64.to_le_bytes());
        self.threads[t].alive = false;
    }

    pub fn beat(&self, t: usize) -> u64 {
        self.read_u64(self.threads[t].page + OFF_BEAT)
    }

    pub fn set_name(&mut self, tid: i32, name: &[u8]) {
        self.cmd(&format!("name {tid} {}", hex(name))).expect("name");
    }

    /// Start a thread that vforks a child sleeping `ms` milliseconds (the thread is in a killable-only
    /// kernel wait meanwhile). Returns (tid, address of the counter it bumps when it is back).
    pub fn vforkwait(&mut self, ms: u64) -> (i32, u64) {
        let r = self.cmd(&format!("vforkwait {ms}")).expect("vforkwait");
        let tid: i32 = r[0].parse().unwrap();
        self.extra_tids.push(tid);
        (tid, parse_ptr(&r[1]))
    }

    /// Start a thread that has a descriptor table of its own (unshare(CLONE_FILES)) holding two extra
    /// descriptors; afterwards the process's table gets one more descriptor. Returns its tid.
    pub fn unshared_fd_thread(&mut self) -> Result<i32, String> {
        let r = self.cmd("unshared_fd_thread")?;
        let tid: i32 = r[0].parse().map_err(|_| "bad tid".to_string())?;
        self.extra_tids.push(tid);
        Ok(tid)
    }

    pub fn pattern(&mut self, pages: usize, tail: &str, prot: &str) -> u64 {
        let r = self.cmd(&format!("pattern {pages} {tail} {prot}")).expect("pattern");
        parse_ptr(&r[0])
    }

    pub fn mapfile(&mut self, path: &[u8], offset: u64, len: u64, prot: &str) -> Result<u64, String> {
        let r = self.cmd(&format!("mapfile {} {offset} {len} {prot}", hex(path)))?;
        Ok(parse_ptr(&r[0]))
    }

    pub fn auxv(&mut self) -> (u64, u64, u64, u64) {
        let r = self.cmd("auxv").expect("auxv");
        (r[0].parse().unwrap(), r[1].parse().unwrap(), r[2].parse().unwrap(), r[3].parse().unwrap())
    }

    /// (tid, signo) pairs logged by the puppet's signal handler so far.
    pub fn signal_log(&self) -> Vec<(i32, i32)> {
        let n = (self.read_u64(self.siglog_n) as usize).min(4096);
        let b = self.read(self.siglog, n * 8);
        b.chunks_exact(8).map(|c| (i32::from_le_bytes(c[0..4].try_into().unwrap()), i32::from_le_bytes(c[4..8].try_into().unwrap()))).collect()
    }

    /// All tids of the puppet as the kernel reports them (sorted as readdir returns them).
    pub fn kernel_tids(&self) -> Vec<i32> {
        let mut v: Vec<i32> = std::fs::read_dir(format!("/proc/{}/task", self.pid))
            .map(|rd| rd.filter_map(|e| e.ok()).filter_map(|e| e.file_name().to_str().and_then(|s| s.parse().ok())).collect())
            .unwrap_or_default();
        v.sort();
        v
    }

    pub fn comm(&self, tid: i32) -> Option<Vec<u8>> {
        std::fs::read(format!("/proc/{}/task/{tid}/comm", self.pid)).ok()
    }

    pub fn status_field(&self, tid: i32, field: &str) -> Option<String> {
        let s = std::fs::read(format!("/proc/{}/task/{tid}/status", self.pid)).ok()?;
        let s = String::from_utf8_lossy(&s).into_owned();
        for l in s.lines() {
            if let Some(rest) = l.strip_prefix(field) {
                return Some(rest.trim_start_matches(':').trim().to_string());
            }
        }
        None
    }

    pub fn maps_text(&self) -> Vec<u8> {
        std::fs::read(format!("/proc/{}/maps", self.pid)).unwrap_or_default()
    }

    /// Wait until the target is quiescent: the main thread is blocked in read(2) again and every
    /// live block thread is inside futex(2). Busy (spin/count) threads never block by design.
    pub fn quiesce(&mut self) {
        let _ = self.cmd("ping");
        let deadline = std::time::Instant::now() + std::time::Duration::from_secs(30);
        let in_syscall = |pid: i32, tid: i32, nr: &str| -> bool {
            std::fs::read_to_string(format!("/proc/{pid}/task/{tid}/syscall")).map(|s| s.starts_with(nr)).unwrap_or(false)
        };
        loop {
            let mut ok = in_syscall(self.pid, self.pid, "0 ");
            for t in &self.threads {
                if t.alive && t.kind == Kind::Block && !in_syscall(self.pid, t.tid, "202 ") {
                    ok = false;
                }
            }
            if ok {
                return;
            }
            if std::time::Instant::now() > deadline {
                panic!("puppet {} did not become quiescent", self.pid);
            }
            std::thread::sleep(std::time::Duration::from_micros(200));
        }
    }

    pub fn alive(&mut self) -> bool {
        matches!(self.child.try_wait(), Ok(None))
    }
}

impl Drop for Puppet {
    fn drop(&mut self) {
        let _ = self.child.kill();
        // A thread that the code under test left ptrace-attached dies as a zombie that only its tracer
        // (this process) can reap, and until then the leader cannot be reaped either: a plain wait()
        // would block for ever.  Reap leftover tracees explicitly and never block.
        let pid = self.child.id() as i32;
        let deadline = std::time::Instant::now() + std::time::Duration::from_secs(5);
        loop {
            if let Ok(rd) = std::fs::read_dir(format!("/proc/{pid}/task")) {
                for e in rd.flatten() {
                    if let Ok(tid) = e.file_name().to_string_lossy().parse::<i32>() {
                        if tid != pid {
                            let mut st = 0;
                            unsafe { libc::waitpid(tid, &mut st, libc::__WALL | libc::WNOHANG) };
                        }
                    }
                }
            }
            match self.child.try_wait() {
                Ok(None) if std::time::Instant::now() < deadline => std::thread::sleep(std::time::Duration::from_millis(2)),
                _ => break,
            }
        }
    }
}
