//! The caller-supplied destination: an in-memory `Write + Seek` object that records every call
//! and can inject an error, a short write or a panic at a chosen call.

use std::io::{Error, ErrorKind, Seek, SeekFrom, Write};

#[derive(Clone, Debug, PartialEq, Eq)]
pub enum DestOp {
    /// seek(SeekFrom::Start(pos)) or other seeks, with the resulting position
    Seek { to: u64 },
    /// stream_position() (a seek(Current(0)))
    Tell,
    /// completed write of these bytes at `at`
    Write { at: u64, data: Vec<u8> },
    Flush,
}

#[derive(Clone, Copy, Debug, PartialEq, Eq)]
pub enum Fault {
    None,
    /// the k-th call (0-based, counting seek/tell/write/flush) returns Err
    ErrAt(usize),
    /// the k-th call panics
    PanicAt(usize),
    /// every write accepts at most this many bytes
    ShortWrites(usize),
}

pub struct RecDest {
    pub data: Vec<u8>,
    pub pos: u64,
    pub log: Vec<DestOp>,
    pub calls: usize,
    pub fault: Fault,
    pub fault_fired: bool,
    /// called before every call with the call index (placement callbacks of the ENV explorer)
    pub before_call: Option<Box<dyn FnMut(usize, &str)>>,
    /// Window translation: the destination pretends that `data[0]` lives at absolute file offset
    /// `base` (e.g. beyond 4 GiB).  Positions handed to / returned from the writer are absolute;
    /// `data`, `pos` and `log` stay relative to `base`.
    pub base: u64,
    /// current absolute position when it lies outside the window [base, base + 2 GiB)
    pub stray_pos: Option<u64>,
    /// writes that landed outside the window (absolute offset, length)
    pub stray: Vec<(u64, usize)>,
}

impl RecDest {
    pub fn new(pre: Vec<u8>, start: u64, fault: Fault) -> Self {
        RecDest { data: pre, pos: start, log: Vec::new(), calls: 0, fault, fault_fired: false, before_call: None, base: 0, stray_pos: None, stray: Vec::new() }
    }
    fn gate(&mut self, what: &str) -> std::io::Result<()> {
        let k = self.calls;
        self.calls += 1;
        if let Some(cb) = self.before_call.as_mut() {
            cb(k, what);
        }
        match self.fault {
            Fault::ErrAt(n) if n == k => {
                self.fault_fired = true;
                Err(Error::new(ErrorKind::Other, format!("injected destination failure at call {k} ({what})")))
            }
            Fault::PanicAt(n) if n == k => {
                self.fault_fired = true;
                panic!("injected destination panic at call {k} ({what})");
            }
            _ => Ok(()),
        }
    }
}

impl Write for RecDest {
    fn write(&mut self, buf: &[u8]) -> std::io::Result<usize> {
        self.gate("write")?;
        let n = match self.fault {
            Fault::ShortWrites(m) => buf.len().min(m.max(1)),
            _ => buf.len(),
        };
        if n == 0 {
            return Ok(0);
        }
        if let Some(p) = self.stray_pos {
            self.stray.push((p, n));
            self.stray_pos = Some(p.wrapping_add(n as u64));
            return Ok(n);
        }
        let at = self.pos as usize;
        if self.data.len() < at + n {
            self.data.resize(at + n, 0);
        }
        self.data[at..at + n].copy_from_slice(&buf[..n]);
        self.log.push(DestOp::Write { at: self.pos, data: buf[..n].to_vec() });
        self.pos += n as u64;
        Ok(n)
    }
    fn flush(&mut self) -> std::io::Result<()> {
        self.gate("flush")?;
        self.log.push(DestOp::Flush);
        Ok(())
    }
}

impl Seek for RecDest {
    fn seek(&mut self, s: SeekFrom) -> std::io::Result<u64> {
        let is_tell = matches!(s, SeekFrom::Current(0));
        self.gate(if is_tell { "stream_position" } else { "seek" })?;
        let cur_abs: i128 = match self.stray_pos {
            Some(p) => p as i128,
            None => self.base as i128 + self.pos as i128,
        };
        let np: i128 = match s {
            SeekFrom::Start(p) => p as i128,
            SeekFrom::Current(d) => cur_abs + d as i128,
            SeekFrom::End(d) => self.base as i128 + self.data.len() as i128 + d as i128,
        };
        if np < 0 {
            return Err(Error::new(ErrorKind::InvalidInput, "seek before start"));
        }
        let rel = np - self.base as i128;
        if rel < 0 || rel >= (1i128 << 31) {
            // outside the window: remember where, store nothing
            self.stray_pos = Some(np as u64);
            return Ok(np as u64);
        }
        self.stray_pos = None;
        self.pos = rel as u64;
        self.log.push(if is_tell { DestOp::Tell } else { DestOp::Seek { to: self.pos } });
        Ok(np as u64)
    }
}

/// Replay the first `n` logged ops on top of `pre`, returning (file bytes, written bitmap).
pub fn replay_prefix(pre: &[u8], log: &[DestOp], n: usize) -> (Vec<u8>, Vec<bool>) {
    let mut data = pre.to_vec();
    let mut written = vec![false; data.len()];
    for op in &log[..n] {
        if let DestOp::Write { at, data: d } = op {
            let at = *at as usize;
            if data.len() < at + d.len() {
                data.resize(at + d.len(), 0);
                written.resize(at + d.len(), false);
            }
            data[at..at + d.len()].copy_from_slice(d);
            for w in &mut written[at..at + d.len()] {
                *w = true;
            }
        }
    }
    (data, written)
}
