//! Driving `MinidumpWriter::dump` with explicit option sets against a target pid.

use crate::checks::c05::{make_context, vals_for};
use crate::checks::guarded;
use mdv_core::{json, Value};
use minidump_writer::app_memory::AppMemory;
use minidump_writer::maps_reader::{MappingEntry, MappingInfo, SystemMappingInfo};
use minidump_writer::minidump_writer::{DirectAuxvDumpInfo, MinidumpWriter};
use std::io::{Seek, Write};
use std::time::Duration;

#[derive(Clone, Debug, Default)]
pub struct CrashSpec {
    pub tid: i32,
    pub signo: u32,
    pub code: i32,
    pub addr: u64,
    /// deviations from the all-distinct base register file (dimension index as in c05)
    pub devs: Vec<(usize, u64)>,
}

// c05 dimension indices of rsp / rip inside the gregs block
pub const DIM_RSP: usize = 15;
pub const DIM_RIP: usize = 16;

#[derive(Clone, Debug, Default)]
pub struct UserMap {
    pub start: usize,
    pub size: usize,
    pub name: String,
    pub id: Vec<u8>,
}

#[derive(Clone, Debug, Default)]
pub struct DumpOpts {
    pub blamed: Option<i32>,
    pub crash: Option<CrashSpec>,
    pub size_limit: Option<u64>,
    pub sanitize: bool,
    pub skip_unref: bool,
    pub principal: Option<usize>,
    pub app_memory: Vec<(usize, usize)>,
    pub user_mappings: Vec<UserMap>,
    pub direct_auxv: Option<(u64, u64, u64, u64)>,
    pub stop_timeout_ms: Option<u64>,
}

impl DumpOpts {
    pub fn to_json(&self) -> Value {
        json!({
            "blamed": self.blamed,
            "crash": self.crash.as_ref().map(|c| json!({"tid": c.tid, "signo": c.signo, "code": c.code, "addr": c.addr,
                "devs": c.devs.iter().map(|(d, v)| json!([d, format!("{v:#x}")])).collect::<Vec<_>>() })),
            "size_limit": self.size_limit, "sanitize": self.sanitize, "skip_unref": self.skip_unref, "principal": self.principal,
            "app_memory": self.app_memory.iter().map(|(p, l)| json!([p, l])).collect::<Vec<_>>(),
            "user_mappings": self.user_mappings.iter().map(|u| json!({"start": u.start, "size": u.size, "name": u.name, "id": mdv_core::hex(&u.id)})).collect::<Vec<_>>(),
            "direct_auxv": self.direct_auxv.map(|a| json!([a.0, a.1, a.2, a.3])),
            "stop_timeout_ms": self.stop_timeout_ms,
        })
    }
    pub fn label(&self) -> String {
        let mut s = String::new();
        if self.crash.is_some() {
            s.push_str("ctx,");
        }
        if let Some(l) = self.size_limit {
            s.push_str(&format!("limit={l},"));
        }
        if self.sanitize {
            s.push_str("sanitize,");
        }
        if self.skip_unref {
            s.push_str(&format!("skip(principal={:x?}),", self.principal));
        }
        if !self.app_memory.is_empty() {
            s.push_str(&format!("app{},", self.app_memory.len()));
        }
        if !self.user_mappings.is_empty() {
            s.push_str("usermap,");
        }
        if self.direct_auxv.is_some() {
            s.push_str("auxv,");
        }
        if s.is_empty() {
            s.push_str("plain");
        }
        s
    }
}

pub fn crash_context_of(pid: i32, c: &CrashSpec) -> minidump_writer::crash_context::CrashContext {
    let mut cc = make_context(&vals_for(&c.devs));
    cc.inner.siginfo.ssi_signo = c.signo;
    cc.inner.siginfo.ssi_code = c.code;
    cc.inner.siginfo.ssi_addr = c.addr;
    cc.inner.pid = pid;
    cc.inner.tid = c.tid;
    cc
}

pub fn user_mapping_list_of(ums: &[UserMap]) -> minidump_writer::maps_reader::MappingList {
    ums.iter()
        .map(|u| MappingEntry {
            mapping: MappingInfo {
                start_address: u.start,
                size: u.size,
                system_mapping_info: SystemMappingInfo { start_address: u.start, end_address: u.start.wrapping_add(u.size) },
                offset: 0,
                permissions: crate::idle::perms(true, false, true),
                name: Some(u.name.clone().into()),
            },
            identifier: u.id.clone(),
        })
        .collect()
}

pub fn make_writer(pid: i32, o: &DumpOpts) -> MinidumpWriter {
    crate::checks::universal::note_writer(pid, o);
    let blamed = o.blamed.unwrap_or(pid);
    let mut w = MinidumpWriter::new(pid, blamed);
    if let Some(c) = &o.crash {
        w.set_crash_context(crash_context_of(pid, c));
    }
    if let Some(l) = o.size_limit {
        w.set_minidump_size_limit(l);
    }
    if o.sanitize {
        w.sanitize_stack();
    }
    if o.skip_unref {
        w.skip_stacks_if_mapping_unreferenced();
    }
    if let Some(p) = o.principal {
        w.set_principal_mapping_address(p);
    }
    if !o.app_memory.is_empty() {
        w.set_app_memory(o.app_memory.iter().map(|(p, l)| AppMemory { ptr: *p, length: *l }).collect());
    }
    if !o.user_mappings.is_empty() {
        w.set_user_mapping_list(user_mapping_list_of(&o.user_mappings));
    }
    if let Some((phnum, phdr, gate, entry)) = o.direct_auxv {
        w.set_direct_auxv_dump_info(DirectAuxvDumpInfo { program_header_count: phnum, program_header_address: phdr, linux_gate_address: gate, entry_address: entry });
    }
    // The writer polls for the target to stop and gives up after a timeout (default 100 ms), which
    // then shows up as a soft error. Whether a loaded machine makes that deadline is not something
    // the checks should depend on: unless a check sets the timeout itself, allow 30 s (the poll
    // returns as soon as the target is seen stopped, so this costs nothing).
    // (u64::MAX stands for Duration::MAX, the largest value a caller can configure)
    w.stop_timeout(match o.stop_timeout_ms {
        Some(u64::MAX) => Duration::MAX,
        ms => Duration::from_millis(ms.unwrap_or(30_000)),
    });
    w
}

#[derive(Debug)]
pub enum DumpResult {
    Ok(Vec<u8>),
    Err(String),
    Panic(String),
}

impl DumpResult {
    pub fn ok(&self) -> Option<&Vec<u8>> {
        match self {
            DumpResult::Ok(b) => Some(b),
            _ => None,
        }
    }
}

pub fn dump_with(w: &mut MinidumpWriter, dest: &mut (impl Write + Seek)) -> DumpResult {
    crate::checks::universal::before_dump();
    crate::watch::dump_begin(crate::checks::universal::current_opts_json());
    let r = match guarded(|| w.dump(dest)) {
        Ok(Ok(b)) => DumpResult::Ok(b),
        Ok(Err(e)) => DumpResult::Err(format!("{e:?}")),
        Err(p) => DumpResult::Panic(p),
    };
    crate::watch::dump_end();
    crate::checks::universal::after_dump(&r);
    r
}

pub fn run_dump(pid: i32, o: &DumpOpts, dest: &mut (impl Write + Seek)) -> DumpResult {
    let mut w = make_writer(pid, o);
    dump_with(&mut w, dest)
}

/// Dump into a plain in-memory cursor.
/// The cursor already holds 24 bytes and is positioned behind them (a dump appended to existing content);
/// what the caller gets to judge is what REACHED THE DESTINATION from that position on, not the image
/// `dump()` returned (the two are equal as long as C09 holds).
pub fn dump_mem(pid: i32, o: &DumpOpts) -> DumpResult {
    const START: usize = 24;
    let mut c = std::io::Cursor::new(vec![0xEEu8; START]);
    c.set_position(START as u64);
    let r = run_dump(pid, o, &mut c);
    crate::checks::universal::dest_check(&r, c.get_ref(), START);
    match r {
        DumpResult::Ok(_) => DumpResult::Ok(c.into_inner().split_off(START)),
        other => other,
    }
}

/// Dump into a recording destination positioned at `start` over pre-existing content `pre`.
pub fn dump_recorded(pid: i32, o: &DumpOpts, start: u64, pre: Vec<u8>, fault: crate::dest::Fault) -> (DumpResult, crate::dest::RecDest) {
    dump_recorded_at(pid, o, 0, start, pre, fault)
}

/// The same with the destination's window presented at absolute file offset `base` (see RecDest::base).
pub fn dump_recorded_at(pid: i32, o: &DumpOpts, base: u64, start: u64, pre: Vec<u8>, fault: crate::dest::Fault) -> (DumpResult, crate::dest::RecDest) {
    let mut d = crate::dest::RecDest::new(pre, start, fault);
    d.base = base;
    let r = run_dump(pid, o, &mut d);
    (r, d)
}
