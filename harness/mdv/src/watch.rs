//! Per-case watchdog: a case that runs longer than the limit ends the whole check. For the
//! properties about totality / leaving the target running (C02, C03) a hang is a verdict
//! (VIOLATION, exit 1, with a replay file); elsewhere it is a machinery problem (exit 2).

use mdv_core::{json, Value};
use std::collections::HashMap;
use std::sync::Mutex;
use std::thread::ThreadId;
use std::time::{Duration, Instant};

static SLOTS: Mutex<Option<HashMap<ThreadId, (Instant, Value)>>> = Mutex::new(None);

pub fn begin(case: Value) {
    let mut g = SLOTS.lock().unwrap_or_else(|e| e.into_inner());
    g.get_or_insert_with(HashMap::new).insert(std::thread::current().id(), (Instant::now(), case));
}

pub fn end() {
    let mut g = SLOTS.lock().unwrap_or_else(|e| e.into_inner());
    if let Some(m) = g.as_mut() {
        m.remove(&std::thread::current().id());
    }
}

static DUMPS: Mutex<Option<HashMap<ThreadId, (Instant, Value)>>> = Mutex::new(None);
static CROSS_MODE: std::sync::atomic::AtomicBool = std::sync::atomic::AtomicBool::new(false);

/// One dump request starts on this thread (watched separately from the enclosing case).
pub fn dump_begin(what: Value) {
    let mut g = DUMPS.lock().unwrap_or_else(|e| e.into_inner());
    g.get_or_insert_with(HashMap::new).insert(std::thread::current().id(), (Instant::now(), what));
}

pub fn dump_end() {
    let mut g = DUMPS.lock().unwrap_or_else(|e| e.into_inner());
    if let Some(m) = g.as_mut() {
        m.remove(&std::thread::current().id());
    }
}

/// While other checks' explorers run on behalf of this check their (longer) cases get a generous
/// limit; single dump requests stay under a tight one.
pub fn cross_mode(on: bool) {
    CROSS_MODE.store(on, std::sync::atomic::Ordering::SeqCst);
}

static ABORT_PROP: Mutex<String> = Mutex::new(String::new());
static ABORT_IS_VERDICT: std::sync::atomic::AtomicBool = std::sync::atomic::AtomicBool::new(false);

extern "C" fn on_abort(_sig: libc::c_int) {
    // the subject aborted the process (e.g. an allocation failure turned into abort()): for the
    // property about totality that is a verdict; name the cases that were in flight
    let prop = ABORT_PROP.try_lock().map(|p| p.clone()).unwrap_or_default();
    if !ABORT_IS_VERDICT.load(std::sync::atomic::Ordering::SeqCst) {
        // not the totality property: an abort is a machinery problem, unless a verdict was reached before
        eprintln!("MACHINERY {prop}: the process was aborted (SIGABRT)");
        let code = if mdv_core::report::emergency_flush() { 1 } else { 2 };
        unsafe { libc::_exit(code) }
    }
    let cases: Vec<Value> = SLOTS.try_lock().ok().and_then(|g| g.as_ref().map(|m| m.values().map(|(_, v)| v.clone()).collect())).unwrap_or_default();
    let dumps: Vec<Value> = DUMPS.try_lock().ok().and_then(|g| g.as_ref().map(|m| m.values().map(|(_, v)| v.clone()).collect())).unwrap_or_default();
    let dir = format!("/verif/replays/{prop}");
    let _ = std::fs::create_dir_all(&dir);
    let path = format!("{dir}/abort.json");
    let case = cases.first().cloned().unwrap_or(Value::Null);
    let body = json!({"property": prop, "key": "abort", "what": "the process was aborted during a dump request (SIGABRT)", "case": case, "cases_in_flight": cases, "dump_requests_in_flight": dumps});
    let _ = std::fs::write(&path, serde_json::to_string_pretty(&body).unwrap_or_default());
    println!("VIOLATION property={prop} replay={path}");
    eprintln!("violation {prop} [abort]: the process was aborted during a dump request; cases in flight: {}", Value::Array(cases));
    mdv_core::report::emergency_flush();
    unsafe { libc::_exit(1) }
}

/// For the totality property: an abort of the process during a dump request is a violation, not a crash of the harness.
pub fn abort_is_violation(prop: &str, verdict: bool) {
    ABORT_IS_VERDICT.store(verdict, std::sync::atomic::Ordering::SeqCst);
    if let Ok(mut g) = ABORT_PROP.lock() {
        *g = prop.to_string();
    }
    unsafe {
        libc::signal(libc::SIGABRT, on_abort as *const () as usize);
    }
}

pub fn start(prop: &str, limit: Duration, hang_is_violation: bool) {
    let prop = prop.to_string();
    std::thread::spawn(move || loop {
        std::thread::sleep(Duration::from_millis(500));
        let cross = CROSS_MODE.load(std::sync::atomic::Ordering::SeqCst);
        let case_limit = if cross { limit.max(Duration::from_secs(300)) } else { limit };
        let dump_limit = if cross { limit.max(Duration::from_secs(60)) } else { limit };
        let mut stuck: Option<(Duration, Value)> = {
            let g = SLOTS.lock().unwrap_or_else(|e| e.into_inner());
            g.as_ref().and_then(|m| m.values().filter(|(t, _)| t.elapsed() > case_limit).map(|(t, v)| (t.elapsed(), v.clone())).next())
        };
        if stuck.is_none() {
            let g = DUMPS.lock().unwrap_or_else(|e| e.into_inner());
            stuck = g.as_ref().and_then(|m| m.values().filter(|(t, _)| t.elapsed() > dump_limit).map(|(t, v)| (t.elapsed(), json!({"dump_request": v}))).next());
        }
        if let Some((age, case)) = stuck {
            if hang_is_violation {
                let dir = format!("/verif/replays/{prop}");
                let _ = std::fs::create_dir_all(&dir);
                let path = format!("{dir}/hang.json");
                let body = json!({"property": prop, "key": "hang", "what": format!("the case did not finish within {} s", limit.as_secs()), "case": case});
                let _ = std::fs::write(&path, serde_json::to_string_pretty(&body).unwrap());
                println!("VIOLATION property={prop} replay={path}");
                eprintln!("violation {prop} [hang]: a case ran for {:.0} s without finishing: {}", age.as_secs_f64(), case);
                std::process::exit(1);
            } else {
                eprintln!("MACHINERY {prop}: a case ran for {:.0} s without finishing: {}", age.as_secs_f64(), case);
                // a verdict that was reached before the run got stuck still stands
                if mdv_core::report::emergency_flush() {
                    eprintln!("{prop}: violations were found before the run got stuck; reporting them");
                    std::process::exit(1);
                }
                std::process::exit(2);
            }
        }
    });
}
