//! ENV — libc symbol interposition inside the checker binary.
//!
//! minidump-writer is linked statically into this executable and reaches the kernel through the
//! `libc` / `nix` / `std` externs (`ptrace`, `waitpid`, `kill`, `process_vm_readv`, `open64`,
//! `opendir`, `pread64`, `uname`, `sysconf`, `clock_gettime`, `clock_nanosleep`, ...). Defining those
//! symbols here makes every such call land in our wrapper first; the wrapper forwards to the real
//! function found with `dlsym(RTLD_NEXT)`. While a thread has an active `Env` (armed), the wrapper
//!   (a) records the call under a logical key,
//!   (b) runs a placement callback registered for that key,
//!   (c) substitutes a world-consistent alternative answer if the plan has one for that key,
//!   (d) refuses `kill`/`ptrace`/`process_vm_readv` on pids that are not whitelisted (the checker
//!       runs as root and the subject signals/attaches by numeric pid taken from its inputs).
//! Unarmed threads (the harness itself, other workers) pass straight through.

use libc::{c_char, c_int, c_long, c_void, pid_t, size_t, ssize_t};
use std::cell::RefCell;
use std::collections::HashMap;
use std::ffi::CStr;

#[derive(Clone, Debug, PartialEq)]
pub enum Alt {
    /// fail with this errno; the real call is NOT made
    Errno(c_int),
    /// make the real call but return at most this many bytes (reads)
    Short(usize),
    /// redirect an open() to another path
    Redirect(String),
}

#[derive(Clone, Debug)]
pub struct Call {
    pub key: String,
    pub func: &'static str,
    pub detail: String,
    pub ret: i64,
    pub errno: i32,
    pub deviated: bool,
}

pub type Callback = Box<dyn FnMut(&str)>;

pub struct Env {
    pub pids: Vec<pid_t>,            // whitelisted pids/tids (puppet + its threads, reaped pids)
    pub main_pid: pid_t,
    pub tids: Vec<pid_t>,            // thread order for stable keys: index 0 = main
    pub trace: Vec<Call>,
    pub plan: HashMap<String, Alt>,
    pub before: HashMap<String, Callback>,
    pub after_return: Option<Callback>,
    pub counters: HashMap<String, usize>,
    pub refused: Vec<String>,
    pub clock_offset_ns: i64,
    pub mem_fds: Vec<c_int>,
    pub dev_opens: Vec<String>,
    pub all_opens: Vec<String>,
    pub record: bool,
}

impl Env {
    pub fn new(main_pid: pid_t, tids: Vec<pid_t>) -> Env {
        let mut pids = tids.clone();
        if !pids.contains(&main_pid) {
            pids.push(main_pid);
        }
        Env {
            pids,
            main_pid,
            tids,
            trace: Vec::new(),
            plan: HashMap::new(),
            before: HashMap::new(),
            after_return: None,
            counters: HashMap::new(),
            refused: Vec::new(),
            clock_offset_ns: 0,
            mem_fds: Vec::new(),
            dev_opens: Vec::new(),
            all_opens: Vec::new(),
            record: true,
        }
    }
    fn next(&mut self, base: &str) -> String {
        let c = self.counters.entry(base.to_string()).or_insert(0);
        let k = format!("{base}#{c}");
        *c += 1;
        k
    }
    fn tidx(&self, tid: pid_t) -> String {
        match self.tids.iter().position(|t| *t == tid) {
            Some(i) => format!("t{i}"),
            None => format!("pid{tid}"),
        }
    }
    fn norm_path(&self, p: &str) -> String {
        // /proc/<pid>/task/<tid>/x -> /proc/P/task/t<i>/x ; /proc/<tid>/x -> /proc/t<i>/x
        let mut out = Vec::new();
        let parts: Vec<&str> = p.split('/').collect();
        for (i, part) in parts.iter().enumerate() {
            if i >= 2 && parts.get(1) == Some(&"proc") {
                if let Ok(n) = part.parse::<pid_t>() {
                    if i == 2 && n == self.main_pid {
                        out.push("P".to_string());
                        continue;
                    }
                    if let Some(ix) = self.tids.iter().position(|t| *t == n) {
                        out.push(format!("t{ix}"));
                        continue;
                    }
                }
            }
            out.push(part.to_string());
        }
        out.join("/")
    }
}

/// '*' matches any (possibly empty) run of characters.
fn glob(p: &[u8], s: &[u8]) -> bool {
    match p.first() {
        None => s.is_empty(),
        Some(b'*') => (0..=s.len()).any(|i| glob(&p[1..], &s[i..])),
        Some(c) => s.first() == Some(c) && glob(&p[1..], &s[1..]),
    }
}

thread_local! {
    static ENV: RefCell<Option<Env>> = const { RefCell::new(None) };
    static IN_HOOK: std::cell::Cell<bool> = const { std::cell::Cell::new(false) };
}

/// Arm interposition for the current thread.
pub fn arm(env: Env) {
    ENV.with(|e| *e.borrow_mut() = Some(env));
}

/// Disarm and return the recorded environment.
pub fn disarm() -> Option<Env> {
    ENV.with(|e| e.borrow_mut().take())
}

pub fn is_armed() -> bool {
    ENV.with(|e| e.try_borrow().map(|b| b.is_some()).unwrap_or(false))
}

/// Run the "after return" placement callback (called by the driver right after dump() returned,
/// while still armed).
pub fn fire_after_return() {
    let cb = ENV.with(|e| e.borrow_mut().as_mut().and_then(|env| env.after_return.take()));
    if let Some(mut cb) = cb {
        cb("after-return");
    }
}

macro_rules! real {
    ($name:literal, $ty:ty) => {{
        static mut PTR: *mut c_void = std::ptr::null_mut();
        unsafe {
            if PTR.is_null() {
                PTR = libc::dlsym(libc::RTLD_NEXT, concat!($name, "\0").as_ptr() as *const c_char);
                if PTR.is_null() {
                    libc::abort();
                }
            }
            std::mem::transmute::<*mut c_void, $ty>(PTR)
        }
    }};
}

fn set_errno(e: c_int) {
    unsafe { *libc::__errno_location() = e };
}
fn get_errno() -> c_int {
    unsafe { *libc::__errno_location() }
}

enum Decision {
    Pass,
    Fail(c_int),
    Short(usize),
    Redirect(String),
    Refuse,
}

/// Common prologue: compute key, run callback, look up the plan. Returns (key, decision).
fn enter(func: &'static str, base_key: impl FnOnce(&mut Env) -> (String, bool), guard_pid: Option<pid_t>) -> Option<(String, Decision)> {
    if IN_HOOK.with(|h| h.get()) {
        return None;
    }
    let armed = ENV.with(|e| e.try_borrow().map(|b| b.is_some()).unwrap_or(false));
    if !armed {
        return None;
    }
    IN_HOOK.with(|h| h.set(true));
    let (key, decision, cb) = ENV.with(|e| {
        let mut b = e.borrow_mut();
        let env = b.as_mut().unwrap();
        if let Some(pid) = guard_pid {
            if !env.pids.contains(&pid) {
                env.refused.push(format!("{func}(pid {pid})"));
                return (format!("{func}:refused"), Decision::Refuse, None);
            }
        }
        let (key, _counted) = base_key(env);
        let cb = env.before.remove(&key);
        // exact key first, then wildcard entries ("vmread#*" matches every vmread#k)
        let alt = env.plan.get(&key).cloned().or_else(|| {
            env.plan.iter().find(|(k, _)| k.contains('*') && glob(k.as_bytes(), key.as_bytes())).map(|(_, a)| a.clone())
        });
        let d = match alt {
            Some(Alt::Errno(e)) => Decision::Fail(e),
            Some(Alt::Short(n)) => Decision::Short(n),
            Some(Alt::Redirect(p)) => Decision::Redirect(p),
            None => Decision::Pass,
        };
        (key, d, cb)
    });
    if let Some(mut cb) = cb {
        // callbacks run unarmed-like (IN_HOOK set): their own libc calls pass through
        cb(&key);
    }
    IN_HOOK.with(|h| h.set(false));
    Some((key, decision))
}

fn leave(key: String, func: &'static str, detail: String, ret: i64, deviated: bool) {
    if IN_HOOK.with(|h| h.get()) {
        return;
    }
    let errno = get_errno();
    IN_HOOK.with(|h| h.set(true));
    ENV.with(|e| {
        if let Ok(mut b) = e.try_borrow_mut() {
            if let Some(env) = b.as_mut() {
                if env.record {
                    env.trace.push(Call { key, func, detail, ret, errno: if ret < 0 { errno } else { 0 }, deviated });
                }
            }
        }
    });
    IN_HOOK.with(|h| h.set(false));
    set_errno(errno);
}

// ------------------------------------------------------------------------------------------- kill

#[no_mangle]
pub unsafe extern "C" fn kill(pid: pid_t, sig: c_int) -> c_int {
    let f = real!("kill", unsafe extern "C" fn(pid_t, c_int) -> c_int);
    let Some((key, d)) = enter("kill", |env| {
        let base = if sig == libc::SIGSTOP { "stop".to_string() } else if sig == libc::SIGCONT { "cont".to_string() } else { format!("kill{sig}") };
        (env.next(&base), true)
    }, Some(pid)) else {
        return f(pid, sig);
    };
    let (ret, dev) = match d {
        Decision::Refuse => {
            set_errno(libc::ESRCH);
            (-1, true)
        }
        Decision::Fail(e) if sig != libc::SIGCONT => {
            set_errno(e);
            (-1, true)
        }
        _ => (f(pid, sig), false),
    };
    leave(key, "kill", format!("sig {sig}"), ret as i64, dev);
    ret
}

// ----------------------------------------------------------------------------------------- ptrace

const PTRACE_GETREGSET: c_long = 0x4204;

#[no_mangle]
pub unsafe extern "C" fn ptrace(request: c_long, pid: pid_t, addr: *mut c_void, data: *mut c_void) -> c_long {
    let f = real!("ptrace", unsafe extern "C" fn(c_long, pid_t, *mut c_void, *mut c_void) -> c_long);
    let req = request & 0xffff_ffff;
    let Some((key, d)) = enter("ptrace", |env| {
        let t = env.tidx(pid);
        let k = match req {
            16 => format!("attach:{t}"),
            17 => format!("detach:{t}"),
            7 => env.next(&format!("ptcont:{t}")),
            12 | 14 | 3 | PTRACE_GETREGSET => env.next(&format!("regs:{t}")),
            1 | 2 => env.next("peek"),
            other => env.next(&format!("ptrace{other}:{t}")),
        };
        (k, true)
    }, Some(pid)) else {
        return f(request, pid, addr, data);
    };
    let never_fail = matches!(req, 17 | 7); // DETACH / CONT are never faked
    let (ret, dev) = match d {
        Decision::Refuse => {
            set_errno(libc::ESRCH);
            (-1, true)
        }
        Decision::Fail(e) if !never_fail => {
            set_errno(e);
            (-1, true)
        }
        _ => (f(request, pid, addr, data), false),
    };
    leave(key, "ptrace", format!("req {req:#x} addr {:#x}", addr as usize), ret as i64, dev);
    ret
}

// ---------------------------------------------------------------------------------------- waitpid

#[no_mangle]
pub unsafe extern "C" fn waitpid(pid: pid_t, status: *mut c_int, options: c_int) -> pid_t {
    let f = real!("waitpid", unsafe extern "C" fn(pid_t, *mut c_int, c_int) -> pid_t);
    let Some((key, d)) = enter("waitpid", |env| {
        let t = env.tidx(pid);
        (env.next(&format!("wait:{t}")), true)
    }, None) else {
        return f(pid, status, options);
    };
    let (ret, dev) = match d {
        Decision::Fail(e) => {
            // World consistency: a wait on a live tracee can only fail with EINTR (nothing consumed).
            // Any other injected failure is modelled as "the stop was consumed, the call reported an
            // error": otherwise the tracee would be left attached-but-not-yet-stopped, a state in which
            // PTRACE_DETACH answers ESRCH and which no real execution of this code can reach.
            if e != libc::EINTR {
                let mut tmp: c_int = 0;
                let _ = f(pid, &mut tmp, options);
            }
            set_errno(e);
            (-1, true)
        }
        _ => (f(pid, status, options), false),
    };
    let st = if !status.is_null() && ret > 0 { *status } else { 0 };
    leave(key, "waitpid", format!("status {st:#x}"), ret as i64, dev);
    ret
}

// ------------------------------------------------------------------------------- process_vm_readv

#[no_mangle]
pub unsafe extern "C" fn process_vm_readv(pid: pid_t, lvec: *const libc::iovec, liovcnt: libc::c_ulong, rvec: *const libc::iovec, riovcnt: libc::c_ulong, flags: libc::c_ulong) -> ssize_t {
    let f = real!("process_vm_readv", unsafe extern "C" fn(pid_t, *const libc::iovec, libc::c_ulong, *const libc::iovec, libc::c_ulong, libc::c_ulong) -> ssize_t);
    let Some((key, d)) = enter("process_vm_readv", |env| (env.next("vmread"), true), Some(pid)) else {
        return f(pid, lvec, liovcnt, rvec, riovcnt, flags);
    };
    let (raddr, rlen) = if riovcnt > 0 && !rvec.is_null() { ((*rvec).iov_base as usize, (*rvec).iov_len) } else { (0, 0) };
    let (ret, dev) = match d {
        Decision::Refuse => {
            set_errno(libc::ESRCH);
            (-1, true)
        }
        Decision::Fail(e) => {
            set_errno(e);
            (-1, true)
        }
        Decision::Short(n) if liovcnt == 1 && riovcnt == 1 && rlen > n && n > 0 => {
            let l = libc::iovec { iov_base: (*lvec).iov_base, iov_len: n };
            let r = libc::iovec { iov_base: (*rvec).iov_base, iov_len: n };
            (f(pid, &l, 1, &r, 1, flags), true)
        }
        _ => (f(pid, lvec, liovcnt, rvec, riovcnt, flags), false),
    };
    leave(key, "process_vm_readv", format!("addr {raddr:#x} len {rlen}"), ret as i64, dev);
    ret
}

// ------------------------------------------------------------------------------------------ open*

unsafe fn open_common(func: &'static str, path: *const c_char, call: &dyn Fn(*const c_char) -> c_int) -> c_int {
    if path.is_null() {
        return call(path);
    }
    let p = CStr::from_ptr(path).to_string_lossy().into_owned();
    let pp = p.clone();
    let Some((key, d)) = enter(func, move |env| {
        let n = env.norm_path(&pp);
        env.all_opens.push(pp.clone());
        if pp.starts_with("/dev/") {
            env.dev_opens.push(pp.clone());
        }
        (env.next(&format!("open:{n}")), true)
    }, None) else {
        return call(path);
    };
    let (ret, dev) = match d {
        Decision::Fail(e) => {
            set_errno(e);
            (-1, true)
        }
        Decision::Redirect(np) => {
            let c = std::ffi::CString::new(np).unwrap();
            (call(c.as_ptr()), true)
        }
        _ => (call(path), false),
    };
    if ret >= 0 && p.ends_with("/mem") && p.starts_with("/proc/") {
        IN_HOOK.with(|h| h.set(true));
        ENV.with(|e| {
            if let Some(env) = e.borrow_mut().as_mut() {
                env.mem_fds.push(ret);
            }
        });
        IN_HOOK.with(|h| h.set(false));
    }
    leave(key, func, p, ret as i64, dev);
    ret
}

#[no_mangle]
pub unsafe extern "C" fn open64(path: *const c_char, flags: c_int, mode: libc::mode_t) -> c_int {
    let f = real!("open64", unsafe extern "C" fn(*const c_char, c_int, libc::mode_t) -> c_int);
    open_common("open64", path, &|p| f(p, flags, mode))
}

#[no_mangle]
pub unsafe extern "C" fn open(path: *const c_char, flags: c_int, mode: libc::mode_t) -> c_int {
    let f = real!("open", unsafe extern "C" fn(*const c_char, c_int, libc::mode_t) -> c_int);
    open_common("open", path, &|p| f(p, flags, mode))
}

#[no_mangle]
pub unsafe extern "C" fn opendir(path: *const c_char) -> *mut libc::DIR {
    let f = real!("opendir", unsafe extern "C" fn(*const c_char) -> *mut libc::DIR);
    if path.is_null() {
        return f(path);
    }
    let p = CStr::from_ptr(path).to_string_lossy().into_owned();
    let pp = p.clone();
    let Some((key, d)) = enter("opendir", move |env| {
        let n = env.norm_path(&pp);
        (env.next(&format!("opendir:{n}")), true)
    }, None) else {
        return f(path);
    };
    let (ret, dev) = match d {
        Decision::Fail(e) => {
            set_errno(e);
            (std::ptr::null_mut(), true)
        }
        _ => (f(path), false),
    };
    leave(key, "opendir", p, if ret.is_null() { -1 } else { 0 }, dev);
    ret
}

// ---------------------------------------------------------------------------------------- pread64

#[no_mangle]
pub unsafe extern "C" fn pread64(fd: c_int, buf: *mut c_void, count: size_t, offset: libc::off64_t) -> ssize_t {
    let f = real!("pread64", unsafe extern "C" fn(c_int, *mut c_void, size_t, libc::off64_t) -> ssize_t);
    // only reads of a /proc/<pid>/mem descriptor opened by the subject are interesting
    let is_mem = !IN_HOOK.with(|h| h.get()) && ENV.with(|e| e.try_borrow().map(|b| b.as_ref().map(|env| env.mem_fds.contains(&fd)).unwrap_or(false)).unwrap_or(false));
    if !is_mem {
        return f(fd, buf, count, offset);
    }
    let Some((key, d)) = enter("pread64", |env| (env.next("pread"), true), None) else {
        return f(fd, buf, count, offset);
    };
    let (ret, dev) = match d {
        Decision::Fail(e) => {
            set_errno(e);
            (-1, true)
        }
        Decision::Short(n) if count > n && n > 0 => (f(fd, buf, n, offset), true),
        _ => (f(fd, buf, count, offset), false),
    };
    leave(key, "pread64", format!("addr {offset:#x} len {count}"), ret as i64, dev);
    ret
}

// -------------------------------------------------------------------------------- uname / sysconf

#[no_mangle]
pub unsafe extern "C" fn uname(buf: *mut libc::utsname) -> c_int {
    let f = real!("uname", unsafe extern "C" fn(*mut libc::utsname) -> c_int);
    let Some((key, d)) = enter("uname", |env| (env.next("uname"), true), None) else {
        return f(buf);
    };
    let (ret, dev) = match d {
        Decision::Fail(e) => {
            set_errno(e);
            (-1, true)
        }
        _ => (f(buf), false),
    };
    leave(key, "uname", String::new(), ret as i64, dev);
    ret
}

// ------------------------------------------------------------------------------------------ clock

#[no_mangle]
pub unsafe extern "C" fn clock_gettime(clk: libc::clockid_t, ts: *mut libc::timespec) -> c_int {
    let f = real!("clock_gettime", unsafe extern "C" fn(libc::clockid_t, *mut libc::timespec) -> c_int);
    let r = f(clk, ts);
    if r == 0 && !ts.is_null() && !IN_HOOK.with(|h| h.get()) {
        let off = ENV.with(|e| e.try_borrow().map(|b| b.as_ref().map(|env| env.clock_offset_ns).unwrap_or(0)).unwrap_or(0));
        if off != 0 && clk == libc::CLOCK_MONOTONIC {
            let total = (*ts).tv_sec as i128 * 1_000_000_000 + (*ts).tv_nsec as i128 + off as i128;
            (*ts).tv_sec = (total / 1_000_000_000) as libc::time_t;
            (*ts).tv_nsec = (total % 1_000_000_000) as c_long;
        }
    }
    r
}

/// Set the virtual offset added to CLOCK_MONOTONIC for the armed thread (time only moves forward).
pub fn advance_clock(ns: i64) {
    ENV.with(|e| {
        if let Some(env) = e.borrow_mut().as_mut() {
            env.clock_offset_ns += ns;
        }
    });
}

pub fn with_env<R>(f: impl FnOnce(&mut Env) -> R) -> Option<R> {
    ENV.with(|e| e.borrow_mut().as_mut().map(f))
}
