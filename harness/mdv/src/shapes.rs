//! Building puppet targets of a given shape, and a small worker pool for dump-level checks.

use crate::puppet::{Kind, Puppet};
use mdv_core::{json, Value};

#[derive(Clone, Debug, Default)]
pub struct Shape {
    /// number of threads INCLUDING the main (control) thread
    pub n: usize,
    /// kind of each extra thread (cycled if shorter than n-1); default Block
    pub kinds: Vec<Kind>,
    /// name per thread (index 0 = main); None = leave the inherited name
    pub names: Vec<Option<Vec<u8>>>,
    /// extra pattern regions: (pages, tail, prot)
    pub patterns: Vec<(usize, String, String)>,
    /// files to map: (path, offset, len, prot)
    pub files: Vec<(Vec<u8>, u64, u64, String)>,
    /// shared objects to dlopen
    pub dlopen: Vec<Vec<u8>>,
    /// extra descriptors (kind, path)
    pub fds: Vec<(String, Vec<u8>)>,
}

impl Shape {
    pub fn threads(n: usize) -> Shape {
        Shape { n, ..Default::default() }
    }
    pub fn to_json(&self) -> Value {
        json!({
            "n": self.n,
            "kinds": self.kinds.iter().map(|k| k.name()).collect::<Vec<_>>(),
            "names": self.names.iter().map(|n| n.as_ref().map(|b| mdv_core::hex(b))).collect::<Vec<_>>(),
            "patterns": self.patterns.iter().map(|(p, t, r)| json!([p, t, r])).collect::<Vec<_>>(),
            "files": self.files.iter().map(|(p, o, l, r)| json!([mdv_core::hex(p), o, l, r])).collect::<Vec<_>>(),
            "dlopen": self.dlopen.iter().map(|p| mdv_core::hex(p)).collect::<Vec<_>>(),
            "fds": self.fds.iter().map(|(k, p)| json!([k, mdv_core::hex(p)])).collect::<Vec<_>>(),
        })
    }
    pub fn from_json(v: &Value) -> Option<Shape> {
        let kind = |s: &str| match s {
            "spin" => Kind::Spin,
            "count" => Kind::Count,
            _ => Kind::Block,
        };
        Some(Shape {
            n: v.get("n")?.as_u64()? as usize,
            kinds: v.get("kinds")?.as_array()?.iter().filter_map(|k| k.as_str().map(kind)).collect(),
            names: v.get("names")?.as_array()?.iter().map(|n| n.as_str().map(mdv_core::unhex)).collect(),
            patterns: v.get("patterns")?.as_array()?.iter().filter_map(|p| Some((p.get(0)?.as_u64()? as usize, p.get(1)?.as_str()?.to_string(), p.get(2)?.as_str()?.to_string()))).collect(),
            files: v.get("files")?.as_array()?.iter().filter_map(|p| Some((mdv_core::unhex(p.get(0)?.as_str()?), p.get(1)?.as_u64()?, p.get(2)?.as_u64()?, p.get(3)?.as_str()?.to_string()))).collect(),
            dlopen: v.get("dlopen")?.as_array()?.iter().filter_map(|p| p.as_str().map(mdv_core::unhex)).collect(),
            fds: v.get("fds")?.as_array()?.iter().filter_map(|p| Some((p.get(0)?.as_str()?.to_string(), mdv_core::unhex(p.get(1)?.as_str()?)))).collect(),
        })
    }
}

pub struct Built {
    pub p: Puppet,
    /// addresses of the pattern regions, in order
    pub pattern_addrs: Vec<u64>,
    /// addresses of the file mappings, in order
    pub file_addrs: Vec<u64>,
}

pub fn build(shape: &Shape) -> Built {
    let mut p = Puppet::spawn();
    for i in 1..shape.n {
        let k = if shape.kinds.is_empty() { Kind::Block } else { shape.kinds[(i - 1) % shape.kinds.len()] };
        p.add_thread(k);
    }
    for (i, name) in shape.names.iter().enumerate() {
        if let Some(nm) = name {
            let tid = if i == 0 { p.pid } else if i - 1 < p.threads.len() { p.threads[i - 1].tid } else { continue };
            p.set_name(tid, nm);
        }
    }
    let mut pattern_addrs = Vec::new();
    for (pages, tail, prot) in &shape.patterns {
        pattern_addrs.push(p.pattern(*pages, tail, prot));
    }
    let mut file_addrs = Vec::new();
    for (path, off, len, prot) in &shape.files {
        file_addrs.push(p.mapfile(path, *off, *len, prot).unwrap_or(0));
    }
    for path in &shape.dlopen {
        let _ = p.cmd(&format!("dlopen {}", mdv_core::hex(path)));
    }
    for (kind, path) in &shape.fds {
        let _ = p.cmd(&format!("fd {kind} {}", mdv_core::hex(path)));
    }
    // quiescence: the main thread is back in read(2) once it answered
    p.quiesce();
    Built { p, pattern_addrs, file_addrs }
}

/// Run `f(index, item)` over all items on up to 16 worker threads; results come back in item order.
pub fn par_map<T: Sync, R: Send>(items: &[T], f: impl Fn(usize, &T) -> R + Sync) -> Vec<R> {
    let nthreads = std::thread::available_parallelism().map(|n| n.get()).unwrap_or(4).min(16).min(items.len().max(1));
    let next = std::sync::atomic::AtomicUsize::new(0);
    let mut slots: Vec<Option<R>> = (0..items.len()).map(|_| None).collect();
    let out = std::sync::Mutex::new(&mut slots);
    std::thread::scope(|s| {
        for _ in 0..nthreads {
            s.spawn(|| loop {
                let i = next.fetch_add(1, std::sync::atomic::Ordering::SeqCst);
                if i >= items.len() {
                    break;
                }
                crate::watch::begin(mdv_core::json!({"work_item": i, "of": items.len()}));
                let r = f(i, &items[i]);
                crate::watch::end();
                out.lock().unwrap()[i] = Some(r);
            });
        }
    });
    slots.into_iter().map(|r| r.expect("worker result")).collect()
}

/// Strip numbers so that an error message becomes a class key.
pub fn classify(msg: &str) -> String {
    let mut out = String::new();
    let mut prev_hash = false;
    let mut chars = msg.chars().peekable();
    while let Some(c) = chars.next() {
        if c.is_ascii_digit() || (c == 'x' && prev_hash) || (prev_hash && c.is_ascii_hexdigit()) {
            if !prev_hash {
                out.push('#');
            }
            prev_hash = true;
        } else {
            prev_hash = false;
            out.push(c);
        }
        if out.len() > 90 {
            break;
        }
    }
    out
}
