//! An idle child process plus a real `PtraceDumper` constructed on it. Pure-function seams that
//! need `&PtraceDumper` (sanitize_stack_copy, get_stack_info) are driven through such a dumper
//! after overwriting its public `mappings` / `page_size` fields with synthetic values.

use minidump_writer::maps_reader::{MappingInfo, SystemMappingInfo};
use minidump_writer::ptrace_dumper::PtraceDumper;
use procfs_core::process::MMPermissions;
use std::process::{Child, Command, Stdio};

pub struct IdleTarget {
    pub child: Child,
}

impl IdleTarget {
    pub fn spawn() -> Self {
        let child = Command::new("/bin/sleep")
            .arg("1000000")
            .stdin(Stdio::null())
            .stdout(Stdio::null())
            .stderr(Stdio::null())
            .spawn()
            .expect("cannot spawn idle target");
        IdleTarget { child }
    }
    pub fn pid(&self) -> i32 {
        self.child.id() as i32
    }
    pub fn dumper(&self) -> PtraceDumper {
        PtraceDumper::new_report_soft_errors(
            self.pid(),
            minidump_writer::minidump_writer::STOP_TIMEOUT,
            Default::default(),
            error_graph::strategy::DontCare,
        )
        .expect("cannot construct a PtraceDumper on the idle target")
    }
}

impl Drop for IdleTarget {
    fn drop(&mut self) {
        let _ = self.child.kill();
        let _ = self.child.wait();
    }
}

pub fn perms(r: bool, w: bool, x: bool) -> MMPermissions {
    let mut p = MMPermissions::PRIVATE;
    if r {
        p |= MMPermissions::READ;
    }
    if w {
        p |= MMPermissions::WRITE;
    }
    if x {
        p |= MMPermissions::EXECUTE;
    }
    p
}

pub fn mapping(start: usize, size: usize, p: MMPermissions, name: Option<&str>) -> MappingInfo {
    MappingInfo {
        start_address: start,
        size,
        system_mapping_info: SystemMappingInfo { start_address: start, end_address: start + size },
        offset: 0,
        permissions: p,
        name: name.map(|n| n.into()),
    }
}
