#![allow(dead_code, unused_mut, unused_variables)]
//! mdv — per-property model-checking drivers for minidump-writer.
//!
//!   mdv <Cxx> quick|thorough        explore, write /verif/evidence/<Cxx>.json
//!   mdv <Cxx> --replay <file>       re-execute exactly one recorded case

mod checks;
mod dest;
mod dump;
mod env;
mod envrun;
mod idle;
mod puppet;
mod shapes;
mod watch;

use mdv_core::report::{load_replay, Report, Tier};

pub struct Ctx {
    pub tier: Tier,
    pub replay: Option<mdv_core::Value>,
}

fn main() {
    let args: Vec<String> = std::env::args().collect();
    if args.len() < 3 {
        eprintln!("usage: mdv <Cxx> quick|thorough | mdv <Cxx> --replay <file>");
        std::process::exit(2);
    }
    let prop = args[1].as_str();
    if prop == "ctxdiff" {
        let mut b = shapes::build(&shapes::Shape::threads(3));
        let mut prev: Option<Vec<u8>> = None;
        for round in 0..3 {
            b.p.quiesce();
            if let dump::DumpResult::Ok(bytes) = dump::dump_mem(b.p.pid, &dump::DumpOpts::default()) {
                let d = mdv_core::mdparse::Dump::parse(&bytes);
                let t = d.threads.iter().find(|t| t.tid == b.p.pid as u32).unwrap();
                let c = d.loc_bytes(&bytes, &t.context).unwrap().to_vec();
                if let Some(p) = &prev {
                    let diffs: Vec<usize> = (0..c.len()).filter(|i| c[*i] != p[*i]).collect();
                    println!("round {round}: differing context offsets: {diffs:?}");
                }
                prev = Some(c);
            }
        }
        return;
    }
    if prop == "c20dbg" {
        for which in 0..2usize {
            let mut b = shapes::build(&shapes::Shape::threads(3));
            let o = dump::DumpOpts { skip_unref: true, principal: Some(b.p.threads[which].page as usize + 16), ..Default::default() };
            b.p.quiesce();
            if let dump::DumpResult::Ok(bytes) = dump::dump_mem(b.p.pid, &o) {
                let d = mdv_core::mdparse::Dump::parse(&bytes);
                println!("principal = page of thread index {which} (tid {}, page {:#x})", b.p.threads[which].tid, b.p.threads[which].page);
                for t in &d.threads {
                    let c = d.loc_bytes(&bytes, &t.context).unwrap();
                    println!("  tid {} ip {:#x} sp {:#x} stack {}", t.tid, mdv_core::mdparse::ctx::u64_at(c, mdv_core::mdparse::ctx::RIP), mdv_core::mdparse::ctx::u64_at(c, mdv_core::mdparse::ctx::RSP), t.stack.size);
                }
            }
        }
        return;
    }
    if prop == "bigdbg" {
        let t0 = std::time::Instant::now();
        let mut p = puppet::Puppet::spawn();
        let region = p.pattern(1300, "hole", "rw");
        eprintln!("pattern done {:.2}s", t0.elapsed().as_secs_f64());
        let t = p.mkthread(puppet::Kind::Spin);
        p.set_gpr(t, puppet::RSP, region + 4096 + 8);
        p.start(t);
        p.quiesce();
        eprintln!("thread started {:.2}s", t0.elapsed().as_secs_f64());
        let r = dump::dump_mem(p.pid, &dump::DumpOpts::default());
        eprintln!("dump done {:.2}s", t0.elapsed().as_secs_f64());
        if let dump::DumpResult::Ok(bytes) = r {
            let d = mdv_core::mdparse::Dump::parse(&bytes);
            eprintln!("parse done {:.2}s ({} bytes)", t0.elapsed().as_secs_f64(), bytes.len());
            let e = d.structural_errors();
            eprintln!("structure done {:.2}s {}", t0.elapsed().as_secs_f64(), e.len());
            let m = p.read(region, 1300 * 4096);
            eprintln!("readback done {:.2}s {}", t0.elapsed().as_secs_f64(), m.len());
        }
        return;
    }
    if prop == "trace" {
        // debugging aid: print the intercepted libc call trace of one plain dump of a 3-thread puppet
        let mut b = shapes::build(&shapes::Shape::threads(3));
        let mut tids = vec![b.p.pid];
        tids.extend(b.p.threads.iter().map(|t| t.tid));
        env::arm(env::Env::new(b.p.pid, tids));
        let r = dump::dump_mem(b.p.pid, &dump::DumpOpts::default());
        let e = env::disarm().unwrap();
        for c in &e.trace {
            println!("{:<40} {:<18} ret={:<8} {}", c.key, c.func, c.ret, c.detail);
        }
        println!("calls: {}  result ok: {}  refused: {:?} dev opens: {:?}", e.trace.len(), matches!(r, dump::DumpResult::Ok(_)), e.refused, e.dev_opens);
        b.p.quiesce();
        return;
    }
    let (tier, replay) = if args[2] == "--replay" {
        let path = args.get(3).cloned().unwrap_or_default();
        match load_replay(&path) {
            Ok(v) => (Tier::Quick, Some(v)),
            Err(e) => {
                eprintln!("cannot load replay: {e}");
                std::process::exit(2);
            }
        }
    } else {
        match args[2].as_str() {
            "quick" => (Tier::Quick, None),
            "thorough" => (Tier::Thorough, None),
            other => {
                eprintln!("unknown tier {other}");
                std::process::exit(2);
            }
        }
    };
    // Panics of the subject are caught per case where the property is about totality; anything
    // else that panics is the harness itself -> machinery exit code.
    watch::start(prop, std::time::Duration::from_secs(if prop == "C02" { 20 } else if tier == Tier::Thorough { 300 } else { 90 }), matches!(prop, "C02" | "C03"));
    // a bug in the harness must not take the machine down: cap the address space (allocation failure
    // then aborts this process = machinery exit, never a verdict)
    unsafe {
        let lim = libc::rlimit { rlim_cur: 40u64 << 30, rlim_max: 40u64 << 30 };
        libc::setrlimit(libc::RLIMIT_AS, &lim);
    }
    // scratch files of earlier runs (fixtures written per case) that were left behind: drop what is older than an hour
    if let Ok(rd) = std::fs::read_dir("/verif/target/tmp") {
        for e in rd.flatten() {
            let old = e.metadata().ok().and_then(|m| m.modified().ok()).and_then(|t| t.elapsed().ok()).map(|d| d.as_secs() > 3600).unwrap_or(false);
            if old {
                let _ = std::fs::remove_file(e.path());
            }
        }
    }
    watch::abort_is_violation(prop, prop == "C02");
    let ctx = Ctx { tier, replay };
    let level = checks::level_of(prop);
    let mut rep = Report::new(prop, tier, level);
    rep.replay_mode = ctx.replay.is_some();
    let res = std::panic::catch_unwind(std::panic::AssertUnwindSafe(|| checks::dispatch(prop, &ctx, &mut rep)));
    match res {
        Ok(true) => rep.finish(),
        Ok(false) => {
            eprintln!("unknown property {prop}");
            std::process::exit(2);
        }
        Err(_) => {
            eprintln!("MACHINERY: checker for {prop} panicked outside a guarded subject call");
            // a verdict that was reached before still stands
            if mdv_core::report::emergency_flush() {
                std::process::exit(1);
            }
            std::process::exit(2);
        }
    }
}
