#![allow(dead_code, unused_mut, unused_variables)]
//! mdv — per-property model-checking drivers for minidump-writer.
//!
//!   mdv <Cxx> quick|thorough        explore, write /verif/evidence/<Cxx>.json
//!   mdv <Cxx> --replay <file>       re-execute exactly one recorded case

mod checks;
mod dest;
mod dump;
mod idle;
mod puppet;
mod shapes;

use mdv_core::report::{load_replay, Report, Tier};

pub struct Ctx {
    pub tier: Tier,
    pub replay: Option<mdv_core::Value>,
}

fn main() {
    let args: Vec<String> = std::env::args().collect();
    if args.len() < 3 {
        eprintln!("usage: mdv <Cxx> quick|thorough | mdv <Cxx> --replay <file>");
        std::process::exit(2);
    }
    let prop = args[1].as_str();
    let (tier, replay) = if args[2] == "--replay" {
        let path = args.get(3).cloned().unwrap_or_default();
        match load_replay(&path) {
            Ok(v) => (Tier::Quick, Some(v)),
            Err(e) => {
                eprintln!("cannot load replay: {e}");
                std::process::exit(2);
            }
        }
    } else {
        match args[2].as_str() {
            "quick" => (Tier::Quick, None),
            "thorough" => (Tier::Thorough, None),
            other => {
                eprintln!("unknown tier {other}");
                std::process::exit(2);
            }
        }
    };
    // Panics of the subject are caught per case where the property is about totality; anything
    // else that panics is the harness itself -> machinery exit code.
    let ctx = Ctx { tier, replay };
    let level = checks::level_of(prop);
    let mut rep = Report::new(prop, tier, level);
    rep.replay_mode = ctx.replay.is_some();
    let res = std::panic::catch_unwind(std::panic::AssertUnwindSafe(|| checks::dispatch(prop, &ctx, &mut rep)));
    match res {
        Ok(true) => rep.finish(),
        Ok(false) => {
            eprintln!("unknown property {prop}");
            std::process::exit(2);
        }
        Err(_) => {
            eprintln!("MACHINERY: checker for {prop} panicked outside a guarded subject call");
            std::process::exit(2);
        }
    }
}
