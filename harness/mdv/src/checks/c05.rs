//! C05 — crash attribution matches what the caller supplied.
//!
//! Part 1 (in-process, LAT): `CrashContext::fill_cpu_context`, `get_instruction_pointer`,
//! `get_stack_pointer` over every ucontext / fpstate field x boundary values, 0/1(/2) deviations
//! from an all-distinct base. Oracle: the ucontext -> CONTEXT_AMD64 field table restated from the
//! two format definitions (sys/ucontext.h, CONTEXT_AMD64 / XMM_SAVE_AREA32).
//! Part 2 (end-to-end exception record / thread-list entry on the puppet) is in c05e.rs.

use crate::checks::guarded;
use crate::Ctx;
use mdv_core::mdparse::ctx as off;
use mdv_core::{json, Report, Value};
use minidump_writer::crash_context::CrashContext;
use minidump_writer::minidump_cpu::RawContextCPU;
use scroll::Pwrite;

// glibc x86-64 gregs indices (sys/ucontext.h)
const REG_R8: usize = 0;
const REG_RDI: usize = 8;
const REG_RSI: usize = 9;
const REG_RBP: usize = 10;
const REG_RBX: usize = 11;
const REG_RDX: usize = 12;
const REG_RAX: usize = 13;
const REG_RCX: usize = 14;
const REG_RSP: usize = 15;
const REG_RIP: usize = 16;
const REG_EFL: usize = 17;
const REG_CSGSFS: usize = 18;

pub const NGREGS: usize = 23;
// dimension layout: 0..23 gregs, 23..31 fp scalars (cwd swd ftw fop rip rdp mxcsr mxcr_mask), 31..63 st_space, 63..127 xmm_space
pub const NDIMS: usize = 23 + 8 + 32 + 64;
const VALUES: [u64; 6] = [0xffff_ffff_ffff_ffff, 0, 1, 0x8000_0000_0000_0000, 0x0000_0000_ffff_ffff, 0xffff_ffff_0000_0000];

pub fn base_value(dim: usize) -> u64 {
    // all-distinct, every byte distinct from its neighbours
    0x0101_0101_0101_0101u64.wrapping_mul(dim as u64 + 1) ^ 0x8040_2010_0804_0201u64.rotate_left((dim % 61) as u32)
}

pub fn make_context(vals: &[u64]) -> CrashContext {
    let mut inner: crash_context::CrashContext = unsafe { std::mem::zeroed() };
    for i in 0..NGREGS {
        inner.context.uc_mcontext.gregs[i] = vals[i] as i64;
    }
    let f = &mut inner.float_state;
    f.cwd = vals[23] as u16;
    f.swd = vals[24] as u16;
    f.ftw = vals[25] as u16;
    f.fop = vals[26] as u16;
    f.rip = vals[27];
    f.rdp = vals[28];
    f.mxcsr = vals[29] as u32;
    f.mxcr_mask = vals[30] as u32;
    for i in 0..32 {
        f.st_space[i] = vals[31 + i] as u32;
    }
    for i in 0..64 {
        f.xmm_space[i] = vals[63 + i] as u32;
    }
    CrashContext { inner }
}

/// The expected CONTEXT_AMD64 bytes for the fields the statement covers: list of (offset, bytes, name).
pub fn expected_fields(vals: &[u64]) -> Vec<(usize, Vec<u8>, String)> {
    let mut v: Vec<(usize, Vec<u8>, String)> = Vec::new();
    let g = |i: usize| vals[i];
    let mut r64 = |o: usize, val: u64, n: &str| v.push((o, val.to_le_bytes().to_vec(), n.to_string()));
    r64(off::RAX, g(REG_RAX), "rax");
    r64(off::RCX, g(REG_RCX), "rcx");
    r64(off::RDX, g(REG_RDX), "rdx");
    r64(off::RBX, g(REG_RBX), "rbx");
    r64(off::RSP, g(REG_RSP), "rsp");
    r64(off::RBP, g(REG_RBP), "rbp");
    r64(off::RSI, g(REG_RSI), "rsi");
    r64(off::RDI, g(REG_RDI), "rdi");
    for k in 0..8 {
        r64(off::R8 + 8 * k, g(REG_R8 + k), &format!("r{}", 8 + k));
    }
    r64(off::RIP, g(REG_RIP), "rip");
    v.push((off::EFLAGS, (g(REG_EFL) as u32).to_le_bytes().to_vec(), "eflags".into()));
    let seg = g(REG_CSGSFS);
    v.push((off::CS, ((seg & 0xffff) as u16).to_le_bytes().to_vec(), "cs".into()));
    v.push((off::GS, (((seg >> 16) & 0xffff) as u16).to_le_bytes().to_vec(), "gs".into()));
    v.push((off::FS, (((seg >> 32) & 0xffff) as u16).to_le_bytes().to_vec(), "fs".into()));
    v.push((off::FS_CONTROL_WORD, (vals[23] as u16).to_le_bytes().to_vec(), "x87 control word".into()));
    v.push((off::FS_STATUS_WORD, (vals[24] as u16).to_le_bytes().to_vec(), "x87 status word".into()));
    v.push((off::FS_TAG_WORD, vec![vals[25] as u8], "x87 tag word (low 8 bits)".into()));
    v.push((off::FS_ERROR_OPCODE, (vals[26] as u16).to_le_bytes().to_vec(), "x87 opcode".into()));
    v.push((off::FS_ERROR_OFFSET, (vals[27] as u32).to_le_bytes().to_vec(), "x87 instruction pointer (low 32)".into()));
    v.push((off::FS_DATA_OFFSET, (vals[28] as u32).to_le_bytes().to_vec(), "x87 data pointer (low 32)".into()));
    v.push((off::FS_MXCSR, (vals[29] as u32).to_le_bytes().to_vec(), "mxcsr".into()));
    v.push((off::FS_MXCSR_MASK, (vals[30] as u32).to_le_bytes().to_vec(), "mxcsr mask".into()));
    let mut st = Vec::new();
    for i in 0..32 {
        st.extend_from_slice(&(vals[31 + i] as u32).to_le_bytes());
    }
    v.push((off::FS_FLOAT_REGISTERS, st, "x87 st registers".into()));
    let mut xmm = Vec::new();
    for i in 0..64 {
        xmm.extend_from_slice(&(vals[63 + i] as u32).to_le_bytes());
    }
    v.push((off::FS_XMM_REGISTERS, xmm, "xmm registers".into()));
    v
}

pub fn context_bytes(cpu: RawContextCPU) -> Vec<u8> {
    let mut out = vec![0u8; off::SIZE];
    out.pwrite_with(cpu, 0, scroll::LE).expect("serialize context");
    out
}

fn check(vals: &[u64], devs: &[(usize, u64)], rep: &mut Report) {
    rep.evaluations += 1;
    let cc = make_context(vals);
    let r = guarded(|| {
        let mut cpu = RawContextCPU::default();
        cc.fill_cpu_context(&mut cpu);
        (context_bytes(cpu), cc.get_instruction_pointer() as u64, cc.get_stack_pointer() as u64)
    });
    let case = json!({"deviations": devs.iter().map(|(d, v)| json!([d, format!("{v:#x}")])).collect::<Vec<_>>()});
    match r {
        Err(p) => {
            rep.violation("pure/panic", &format!("fill_cpu_context panicked: {p}"), case);
        }
        Ok((bytes, ip, sp)) => {
            rep.outcome(mdv_core::fnv(&bytes));
            if ip != vals[REG_RIP] {
                rep.violation("pure/get_instruction_pointer", &format!("instruction pointer {ip:#x} != supplied rip {:#x}", vals[REG_RIP]), case.clone());
            }
            if sp != vals[REG_RSP] {
                rep.violation("pure/get_stack_pointer", &format!("stack pointer {sp:#x} != supplied rsp {:#x}", vals[REG_RSP]), case.clone());
            }
            for (o, want, name) in expected_fields(vals) {
                if bytes[o..o + want.len()] != want[..] {
                    // narrow to the first differing 4-byte lane for the vector areas
                    let first = (0..want.len()).find(|i| bytes[o + i] != want[*i]).unwrap();
                    rep.violation(
                        &format!("pure/field/{name}"),
                        &format!("context field {name}: byte {first} is {:#x}, supplied context says {:#x}", bytes[o + first], want[first]),
                        case.clone(),
                    );
                }
            }
        }
    }
}

pub fn vals_for(devs: &[(usize, u64)]) -> Vec<u64> {
    let mut vals: Vec<u64> = (0..NDIMS).map(base_value).collect();
    for (d, v) in devs {
        vals[*d] = *v;
    }
    vals
}

pub fn run_pure(ctx: &Ctx, rep: &mut Report) {
    let sizes = vec![VALUES.len() + 1; NDIMS];
    let k = if ctx.tier.is_thorough() { 2 } else { 1 };
    let mut cases: Vec<Vec<(usize, u64)>> = Vec::new();
    mdv_core::lat::lat(&sizes, k, |idx| {
        let devs: Vec<(usize, u64)> = idx.iter().enumerate().filter(|(_, v)| **v != 0).map(|(d, v)| (d, VALUES[*v - 1])).collect();
        cases.push(devs);
    });
    // quick: all single deviations plus all pairs among the register-file dims that share a packed
    // field (segments) or are adjacent in the tables
    if !ctx.tier.is_thorough() {
        for a in 0..NGREGS {
            for b in (a + 1)..NGREGS {
                for va in [VALUES[0], VALUES[3]] {
                    for vb in [VALUES[1], VALUES[4]] {
                        cases.push(vec![(a, va), (b, vb)]);
                    }
                }
            }
        }
    }
    rep.set("deviation_bound_completed", json!(k));
    rep.set("dimensions", json!(NDIMS));
    for devs in &cases {
        if !devs.is_empty() {
            rep.nontrivial += 1;
        }
        check(&vals_for(devs), devs, rep);
    }
    rep.sample(json!({"deviations": [[REG_CSGSFS, "0xffffffff00000000"]], "meaning": "gregs[REG_CSGSFS] set to a boundary value, every other field at its all-distinct base value"}));
}

pub fn run(ctx: &Ctx, rep: &mut Report) {
    rep.rule = "LAT over 127 dimensions (23 gregs, 8 x87/SSE scalars, 32 st words, 64 xmm words) x 6 boundary values: all tuples with <=1 (thorough <=2) deviations from the all-distinct base, on CrashContext::fill_cpu_context / get_instruction_pointer / get_stack_pointer; end-to-end part: blamed thread x crash context on/off x register files on the puppet. nontrivial = cases with at least one deviation".into();
    if let Some(case) = &ctx.replay {
        if let Some(d) = case.get("deviations").and_then(|d| d.as_array()) {
            let devs: Vec<(usize, u64)> = d
                .iter()
                .filter_map(|p| Some((p.get(0)?.as_u64()? as usize, u64::from_str_radix(p.get(1)?.as_str()?.trim_start_matches("0x"), 16).ok()?)))
                .collect();
            check(&vals_for(&devs), &devs, rep);
        } else {
            crate::checks::c05e::replay(case, rep);
        }
        return;
    }
    run_pure(ctx, rep);
    crate::checks::c05e::run(ctx, rep);
    rep.states = rep.evaluations;
    rep.transitions = rep.evaluations;
    rep.traces = rep.evaluations;
    rep.exhaustive = true;
}
#[allow(dead_code)]
fn _unused(_: Value) {}
