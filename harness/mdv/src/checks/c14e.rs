//! C14 memory-vs-file part (puppet-based) — filled in once the puppet exists.
use crate::Ctx;
use mdv_core::{Report, Value};
pub fn run(_ctx: &Ctx, _rep: &mut Report) {}
pub fn replay(_case: &Value, rep: &mut Report) {
    rep.machinery("memory-vs-file C14 replay not available yet".into());
}
