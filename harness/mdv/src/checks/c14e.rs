//! C14 memory-vs-file part, and the C02 family "mutated ELF image at the start of a mapping".

use crate::checks::c02::{total_dump, Case, Verdict};
use crate::checks::c14::{agree, Ident};
use crate::checks::guarded;
use crate::dump::DumpOpts;
use crate::puppet::{Kind, Puppet};
use crate::shapes::par_map;
use crate::Ctx;
use mdv_core::elfbuild::{build, write_field, Spec};
use mdv_core::mapsref::parse_maps;
use mdv_core::{json, Report, Value};
use minidump_writer::module_reader::{BuildId, ProcessMemory, ProcessReader, ReadFromModule, SoName};

const FIX: &str = "/verif/target/fixtures";
const SYSTEM_LIBS: [&str; 14] = ["libz.so.1", "libm.so.6", "libbz2.so.1.0", "liblzma.so.5", "libgcc_s.so.1", "libstdc++.so.6", "libcrypt.so.1", "libresolv.so.2", "libutil.so.1", "librt.so.1", "libffi.so.8", "libexpat.so.1", "libuuid.so.1", "libtinfo.so.6"];

fn from_memory(pid: i32, base: u64) -> Result<Ident, String> {
    guarded(|| {
        let b = BuildId::read_from_module(ProcessMemory::from(ProcessReader::new(pid, base as usize))).ok().map(|b| b.0);
        let s = SoName::read_from_module(ProcessMemory::from(ProcessReader::new(pid, base as usize))).ok().map(|s| s.0);
        Ident { build_id: b, soname: s }
    })
}

fn from_file(path: &str) -> Result<Ident, String> {
    guarded(|| {
        let p = std::path::Path::new(path);
        Ident { build_id: BuildId::read_from_file(p).ok().map(|b| b.0), soname: SoName::read_from_file(p).ok().map(|s| s.0) }
    })
}

fn candidates(thorough: bool) -> Vec<String> {
    let mut v: Vec<String> = ["libfix_sha1.so", "libfix_none.so", "libfix_zero.so", "libfix_8.so", "libfix_nosoname.so", "lib with space.so", "libver.so.6.0.32"].iter().map(|f| format!("{FIX}/{f}")).collect();
    v.push(format!("{FIX}/libnonascii_\u{e9}.so"));
    let dirs = ["/usr/lib/x86_64-linux-gnu", "/lib/x86_64-linux-gnu"];
    for l in SYSTEM_LIBS.iter().take(if thorough { 14 } else { 6 }) {
        for d in dirs {
            let p = format!("{d}/{l}");
            if std::path::Path::new(&p).exists() {
                v.push(p);
                break;
            }
        }
    }
    v
}

fn check_lib(path: &str) -> (Value, Vec<(String, String)>, bool) {
    let case = json!({"memory_vs_file": path});
    let mut fails = Vec::new();
    let mut p = Puppet::spawn();
    p.add_thread(Kind::Block);
    if p.cmd(&format!("dlopen {}", mdv_core::hex(path.as_bytes()))).is_err() {
        return (case, fails, false);
    }
    p.quiesce();
    let real = std::fs::canonicalize(path).map(|p| p.to_string_lossy().into_owned()).unwrap_or(path.to_string());
    let maps = parse_maps(&p.maps_text()).unwrap_or_default();
    let Some(base) = maps.iter().find(|l| l.offset == 0 && l.name.as_deref() == Some(real.as_bytes())).map(|l| l.start) else {
        return (case, fails, false);
    };
    let mem = from_memory(p.pid, base);
    let file = from_file(&real);
    match (&mem, &file) {
        (Err(pn), _) | (_, Err(pn)) => fails.push(("memory-vs-file/panic".into(), format!("{path}: {pn}"))),
        (Ok(m), Ok(f)) => {
            // "the same answers": where both readers produce a value the values must be equal. A
            // module without a build-id note cannot be hashed from memory at all (its section table
            // is not loaded) - the writer then falls back to the file; an error is not an answer.
            if m.build_id.is_some() && f.build_id.is_some() && m.build_id != f.build_id {
                fails.push(("memory-vs-file/build-id".into(), format!("{path}: build id from memory {:?} != from file {:?}", m.build_id.as_ref().map(|b| mdv_core::hex(b)), f.build_id.as_ref().map(|b| mdv_core::hex(b)))));
            }
            if m.soname.is_some() && f.soname.is_some() && m.soname != f.soname {
                fails.push(("memory-vs-file/soname".into(), format!("{path}: SONAME from memory {:?} != from file {:?}", m.soname, f.soname)));
            }
            if let Ok(bytes) = std::fs::read(&real) {
                let answered = Ident { build_id: m.build_id.clone().or_else(|| f.build_id.clone()), soname: m.soname.clone().or_else(|| f.soname.clone()) };
                if let Some((k, msg)) = agree(&bytes, &answered, "memory") {
                    fails.push((k, format!("{path} (read from target memory): {msg}")));
                }
            }
        }
    }
    (case, fails, true)
}

/// The target's own [vdso]: a module that exists in memory only, whose dynamic section the loader never
/// relocated (DT_STRTAB is still module-relative). Read through target memory, through a byte copy of the
/// mapping, and judged against the independent parser on that copy.
fn check_vdso() -> (Value, Vec<(String, String)>, bool) {
    let case = json!({"memory_vs_file": "[vdso]"});
    let mut fails = Vec::new();
    let mut p = Puppet::spawn();
    p.quiesce();
    let maps = parse_maps(&p.maps_text()).unwrap_or_default();
    let Some(l) = maps.iter().find(|l| l.name.as_deref() == Some(&b"[vdso]"[..])) else {
        return (case, fails, false);
    };
    let (base, len) = (l.start, (l.end - l.start) as usize);
    let bytes = p.read(base, len);
    if bytes.len() != len {
        return (case, fails, false);
    }
    let mem = from_memory(p.pid, base);
    let copy = guarded(|| Ident { build_id: BuildId::read_from_module(ProcessMemory::from(&bytes[..])).ok().map(|b| b.0), soname: SoName::read_from_module(ProcessMemory::from(&bytes[..])).ok().map(|s| s.0) });
    match (&mem, &copy) {
        (Err(pn), _) | (_, Err(pn)) => fails.push(("memory-vs-file/panic".into(), format!("[vdso]: {pn}"))),
        (Ok(m), Ok(f)) => {
            if m.build_id.is_some() && f.build_id.is_some() && m.build_id != f.build_id {
                fails.push(("memory-vs-file/build-id".into(), format!("[vdso]: build id from target memory {:?} != from a byte copy of the mapping {:?}", m.build_id.as_ref().map(|b| mdv_core::hex(b)), f.build_id.as_ref().map(|b| mdv_core::hex(b)))));
            }
            if m.soname.is_some() && f.soname.is_some() && m.soname != f.soname {
                fails.push(("memory-vs-file/soname".into(), format!("[vdso]: SONAME from target memory {:?} != from a byte copy of the mapping {:?}", m.soname, f.soname)));
            }
            // (an error is not an answer: where the memory reader gives none, the copy's is judged)
            let answered = Ident { build_id: m.build_id.clone().or_else(|| f.build_id.clone()), soname: m.soname.clone().or_else(|| f.soname.clone()) };
            if let Some((k, msg)) = agree(&bytes, &answered, "memory") {
                fails.push((k, format!("[vdso] (read from target memory): {msg}")));
            }
        }
    }
    (case, fails, true)
}

pub fn run(ctx: &Ctx, rep: &mut Report) {
    let libs = candidates(ctx.tier.is_thorough());
    let results = par_map(&libs, |_, l| check_lib(l));
    let mut loaded = 0;
    for (case, fails, ok) in results {
        rep.evaluations += 1;
        if ok {
            loaded += 1;
            rep.nontrivial += 1;
        }
        if rep.samples.len() < 8 && ok {
            rep.sample(case.clone());
        }
        for (k, m) in fails {
            rep.violation(&k, &m, case.clone());
        }
    }
    {
        let (case, fails, ok) = check_vdso();
        rep.evaluations += 1;
        if ok {
            rep.nontrivial += 1;
        }
        for (k, m) in fails {
            rep.violation(&k, &m, case.clone());
        }
        rep.set("vdso_compared", json!(ok));
    }
    rep.set("memory_vs_file", json!({"candidates": libs.len(), "loaded_and_compared": loaded}));
    if loaded < 5 {
        rep.machinery(format!("only {loaded} libraries could be loaded into the puppet"));
    }
}

pub fn replay(case: &Value, rep: &mut Report) {
    if let Some(p) = case.get("memory_vs_file").and_then(|p| p.as_str()) {
        let (c, fails, _) = if p == "[vdso]" { check_vdso() } else { check_lib(p) };
        rep.evaluations += 1;
        for (k, m) in fails {
            rep.violation(&k, &m, c.clone());
        }
    } else {
        rep.machinery("unknown C14 replay".into());
    }
}

// ------------------------------------------------------------------------------------- C02 family

const VALUES: [u64; 12] = [0, 1, 0xffff, 0x7fff_ffff, 0xffff_ffff, 1 << 32, (1 << 63) - 1, 1 << 63, u64::MAX - 4095, u64::MAX - 7, u64::MAX, 0x2000];

fn specs() -> Vec<Spec> {
    let d = Spec::default();
    vec![d.clone(), Spec { is64: false, ..d.clone() }, Spec { pt_note: false, section_note: false, text_len: 3000, ..d.clone() }]
}

pub fn c02_cases(thorough: bool) -> Vec<Case> {
    let mut v = Vec::new();
    for (i, s) in specs().iter().enumerate() {
        if !thorough && i == 2 {
            continue;
        }
        let b = build(s);
        for f in 0..b.fields.len() {
            for val in 0..VALUES.len() {
                if !thorough && val % 2 == 1 && i == 1 {
                    continue;
                }
                v.push(Case::ElfInMemory { image: i, field: f, value: val });
            }
        }
    }
    v
}

pub fn c02_elf_in_memory(image: usize, field: usize, value: usize) -> Verdict {
    let spec = &specs()[image];
    let b = build(spec);
    let mut bytes = b.bytes.clone();
    let f = &b.fields[field];
    write_field(&mut bytes, f, b.be, VALUES[value]);
    bytes.resize(8192, 0);
    let dir = "/verif/target/tmp";
    let _ = std::fs::create_dir_all(dir);
    let path = format!("{dir}/elfmem_{}_{:?}.so", std::process::id(), std::thread::current().id()).replace(['(', ')'], "");
    let _ = std::fs::write(&path, &bytes);
    let mut p = Puppet::spawn();
    p.add_thread(Kind::Block);
    let _ = p.mapfile(path.as_bytes(), 0, 8192, "rx");
    p.quiesce();
    let v = total_dump(&p, &DumpOpts::default(), vec![], &format!("mapped ELF image #{image} with {} = {:#x}", f.name, VALUES[value]));
    drop(p);
    let _ = std::fs::remove_file(&path);
    v
}
