//! C20 end-to-end part: which thread stacks a dump keeps when skipping unreferenced stacks.
//! Three spin threads whose stack words the checker plants; principal mapping = a dedicated region
//! or a thread's own code page (so that thread's instruction pointer is inside it); every
//! combination (<=2 deviations quick, full product thorough) of per-thread pointer placements x
//! principal address {inside a mapping, in none} x crash context {off, on}.

use crate::dump::{dump_mem, CrashSpec, DumpOpts, DumpResult, DIM_RIP, DIM_RSP};
use crate::puppet::{Kind, Puppet, RBX, RSP};
use crate::shapes::par_map;
use crate::Ctx;
use mdv_core::mdparse::{Dump, ST_MOZ_SOFT_ERRORS};
use mdv_core::{json, Report, Value};

const MODES: [&str; 6] = ["none", "at-sp", "at-sp+8", "last-word-of-stack", "below-sp-only", "unaligned-only"];

#[derive(Clone, Debug)]
pub struct Case {
    modes: [usize; 3],
    principal: usize, // 0 dedicated executable region, 1 thread 0's code page, 2 address in no mapping, 3 dedicated non-executable region, 4 executable region at a fixed low address (below the executable), 5 the executable's own text mapping, 6 / 7 a file mapping folded over an inaccessible anonymous page (piece, hole, final piece): principal address in the front piece and the reference into the piece behind the hole / the other way round
    ctx: usize,       // 0 off, 1 on: rip outside, 2 on: rip inside principal, 3 on: rip == end of principal, 4 on: rip outside and the context's stack pointer 5 bytes above the thread's (not pointer-aligned)
    /// stack sanitising on as well (it must not influence which stacks are kept)
    sanitize: bool,
    /// target flavour: 0 three test threads only; 1 = 22 block threads created first (the test threads sit
    /// at list positions >= 20) and the size limit engaged; 2 = like 1 with the stack pointers in the
    /// upper half of their page
    flavour: u8,
}

impl Case {
    fn to_json(&self) -> Value {
        json!({"modes": self.modes.iter().map(|m| MODES[*m]).collect::<Vec<_>>(), "principal": self.principal, "ctx": self.ctx, "sanitize": self.sanitize, "flavour": self.flavour})
    }
    fn from_json(v: &Value) -> Option<Case> {
        let m: Vec<usize> = v.get("modes")?.as_array()?.iter().filter_map(|x| MODES.iter().position(|n| Some(*n) == x.as_str())).collect();
        Some(Case { modes: [m[0], m[1], m[2]], principal: v.get("principal")?.as_u64()? as usize, ctx: v.get("ctx")?.as_u64()? as usize, sanitize: v.get("sanitize").and_then(|x| x.as_bool()).unwrap_or(false), flavour: v.get("flavour").and_then(|x| x.as_u64()).unwrap_or(0) as u8 })
    }
}

pub struct Target {
    p: Puppet,
    region: u64, // dedicated principal region (2 pages, executable)
    region_rw: u64, // a second dedicated region that is NOT executable (data mapping as principal mapping)
    /// a region at a fixed LOW address (below the executable: the writer moves the entry-point mapping to the
    /// front of its list, so its list is not address-sorted in this target); 0 if the address was taken
    region_low: u64,
    /// start of a 3-page read-only file mapping whose middle page was replaced by an inaccessible anonymous
    /// page (0 if it could not be set up)
    region_fold: u64,
    /// an address range inside the puppet executable's text mapping
    exe_text: (u64, u64),
    sp: [u64; 3],
    hi: [u64; 3], // end of each thread's stack mapping
    /// index (in p.threads) of the first of the three test threads
    first: usize,
    flavour: u8,
}

fn make_target(flavour: u8) -> Target {
    let mut p = Puppet::spawn();
    if flavour >= 1 {
        for _ in 0..22 {
            p.add_thread(Kind::Block);
        }
    }
    let region = p.pattern(2, "hole", "rx");
    let region_rw = p.pattern(2, "hole", "rw");
    let region_low = p.cmd("pattern_at 0x20000000 2 rx").ok().and_then(|r| r.first().map(|a| u64::from_str_radix(a.trim_start_matches("0x"), 16).unwrap_or(0))).unwrap_or(0);
    let region_fold = {
        let path = "/verif/target/fixtures/plain.bin";
        match p.mapfile(path.as_bytes(), 0, 3 * 4096, "r") {
            Ok(a) if p.cmd(&format!("hole_at {:#x} 4096", a + 4096)).is_ok() => a,
            _ => 0,
        }
    };
    // the executable as the writer sees it: the merged extent of the contiguous lines that carry its name
    let exe_text = {
        let lines = mdv_core::mapsref::parse_maps(&p.maps_text()).unwrap_or_default();
        let mine: Vec<_> = lines.iter().filter(|l| l.name.as_deref().map(|n| n.ends_with(b"/puppet")).unwrap_or(false)).collect();
        match (mine.first(), mine.last()) {
            (Some(a), Some(b)) if mine.windows(2).all(|w| w[0].end == w[1].start) => (a.start, b.end),
            _ => (0, 0),
        }
    };
    let mut sp = [0u64; 3];
    let mut hi = [0u64; 3];
    for i in 0..3 {
        // each spin thread gets a dedicated two-page region as its stack (a spin thread never uses
        // its stack; signals run on the alternate stack): unlike a pthread stack it has no TCB/rseq
        // area at the top that the kernel rewrites behind our back, so the LAST word is ours too
        let stack = p.pattern(2, "hole", "rw");
        hi[i] = stack + 2 * 4096;
        let t = p.mkthread(Kind::Spin);
        let rsp = stack + if flavour == 2 { 0xfc0 } else { 0x7c0 };
        p.set_gpr(t, RSP, rsp);
        for r in 0..16 {
            if r != RSP {
                p.set_gpr(t, r, 0x1111_0000 + (i as u64) * 0x100 + r as u64);
            }
        }
        if i == 2 {
            // a pointer into the dedicated region held in a register only: never a stack reference
            p.set_gpr(t, RBX, region + 0x10);
        }
        p.start(t);
        sp[i] = rsp;
    }
    // scrub the captured part of the stacks of anything that might look like a pointer into the regions
    p.quiesce();
    let first = if flavour >= 1 { 22 } else { 0 };
    Target { p, region, region_rw, region_low, region_fold, exe_text, sp, hi, first, flavour }
}

fn expected_reference(mem: &[u8], base: u64, sp: u64, low: u64, high: u64) -> bool {
    let mut a = (sp + 7) & !7;
    while a + 8 <= base + mem.len() as u64 {
        let o = (a - base) as usize;
        let w = u64::from_le_bytes(mem[o..o + 8].try_into().unwrap());
        if w >= low && w < high {
            return true;
        }
        a += 8;
    }
    false
}

pub fn run_case(t: &mut Target, c: &Case) -> Vec<(String, String)> {
    let mut fails = Vec::new();
    let (low, high) = match c.principal {
        0 => (t.region, t.region + 2 * 4096),
        1 => (t.p.threads[t.first].page, t.p.threads[t.first].page + 4096),
        3 => (t.region_rw, t.region_rw + 2 * 4096),
        4 if t.region_low != 0 => (t.region_low, t.region_low + 2 * 4096),
        5 if t.exe_text.0 != 0 => t.exe_text,
        6 | 7 if t.region_fold != 0 => (t.region_fold, t.region_fold + 3 * 4096),
        4..=7 => return fails, // this target could not provide the shape
        _ => (0x10, 0x10),
    };
    let ptr = match c.principal {
        2 => t.region + 0x20,
        6 => low + 2 * 4096 + 0x20, // into the piece behind the hole
        _ => low + 0x20,
    };
    // plant
    let mut restore: Vec<(u64, Vec<u8>)> = Vec::new();
    for i in 0..3 {
        let sp = t.sp[i];
        let hi = t.hi[i];
        let slots: Vec<u64> = match c.modes[i] {
            1 => vec![sp],
            2 => vec![sp + 8],
            3 => vec![hi - 8],
            4 => vec![sp - 8, sp - 64],
            5 => vec![sp + 20],
            _ => vec![],
        };
        for s in slots {
            restore.push((s, t.p.read(s, 8)));
            t.p.write(s, &ptr.to_le_bytes());
        }
    }
    let blamed = t.p.threads[t.first + 1].tid;
    let mut o = DumpOpts { skip_unref: true, principal: Some(match c.principal { 2 => 0x10, 7 => low as usize + 2 * 4096 + 0x40, _ => low as usize + 0x40 }), blamed: Some(blamed), sanitize: c.sanitize, size_limit: if t.flavour >= 1 { Some(0) } else { None }, ..Default::default() };
    let ctx_rip = match c.ctx {
        1 | 4 => Some(t.p.threads[t.first + 1].page + 0x10),
        2 => Some(if c.principal == 2 { t.region } else { low + 4 }),
        3 => Some(if c.principal == 2 { t.region } else { high }),
        _ => None,
    };
    if let Some(rip) = ctx_rip {
        o.crash = Some(CrashSpec { tid: blamed, signo: 11, code: 1, addr: 0, devs: vec![(DIM_RSP, t.sp[1] + if c.ctx == 4 { 5 } else { 0 }), (DIM_RIP, rip)] });
    }
    // expectations from the target's real memory
    let mut exp = [false; 3];
    let mut ambiguous = [false; 3];
    let mut why = [""; 3];
    let have_mapping = c.principal != 2;
    for i in 0..3 {
        let hi = t.hi[i];
        let base = t.sp[i] & !0xfff;
        let mem = t.p.read(base, (hi - base) as usize);
        let ip_inside = if i == 1 && ctx_rip.is_some() { let r = ctx_rip.unwrap(); r >= low && r < high } else { let pg = t.p.threads[t.first + i].page; pg >= low && pg < high };
        // (the crash thread's stack is judged from the stack pointer of the crash context)
        let sp_i = if i == 1 && c.ctx == 4 { t.sp[1] + 5 } else { t.sp[i] };
        let mut refd = expected_reference(&mem, base, sp_i, low, high);
        if t.flavour >= 1 && !(i == 1 && ctx_rip.is_some()) {
            // size-limited thread (list position >= 20, not the crash thread): the writer keeps the 2 KiB
            // chunk that holds sp; a reference inside it is certain, one beyond it is not judged
            let chunk = base + ((t.sp[i] - base) / 2048) * 2048;
            let win = t.p.read(chunk, 2048);
            let in_window = expected_reference(&win, chunk, t.sp[i], low, high);
            if refd && !in_window {
                ambiguous[i] = true;
            }
            refd = in_window;
        }
        exp[i] = have_mapping && (ip_inside || refd);
        why[i] = if ip_inside { "ip inside" } else if refd { "stack word" } else { "nothing" };
    }
    let r = dump_mem(t.p.pid, &o);
    for (a, old) in restore.iter().rev() {
        t.p.write(*a, old);
    }
    let bytes = match r {
        DumpResult::Ok(b) => b,
        DumpResult::Err(e) => {
            fails.push(("dump-failed".into(), format!("dump with stack skipping returned an error: {e}")));
            return fails;
        }
        DumpResult::Panic(p) => {
            fails.push(("panic".into(), p));
            return fails;
        }
    };
    let d = Dump::parse(&bytes);
    for i in 0..3 {
        let tid = t.p.threads[t.first + i].tid as u32;
        let Some(th) = d.threads.iter().find(|x| x.tid == tid) else {
            fails.push(("thread-record-missing".into(), format!("thread {i} has no thread record")));
            continue;
        };
        if th.context.size == 0 {
            fails.push(("context-missing".into(), format!("thread {i}: no CPU context")));
        }
        let included = th.stack.size > 0;
        if included != exp[i] && !ambiguous[i] {
            let k = if included { "stack-kept-but-unreferenced" } else { "stack-dropped-but-referenced" };
            let detail = if included && c.ctx == 3 && i == 1 { "/ip-equals-mapping-end" } else { "" };
            fails.push((format!("{k}{detail}"), format!("thread {i} (placement {}, reference through: {}): stack included = {included}, rule says {}", MODES[c.modes[i]], why[i], exp[i])));
        }
        if included && !d.memory.iter().any(|m| m.start == th.stack_start && m.loc.rva == th.stack.rva) {
            fails.push(("kept-stack-not-in-memory-list".into(), format!("thread {i}: kept stack is not in the memory list")));
        }
    }
    if c.ctx != 0 {
        let soft = d.raw_bytes(&bytes, ST_MOZ_SOFT_ERRORS).map(|b| String::from_utf8_lossy(b).into_owned()).unwrap_or_default();
        let reported = soft.contains("PrincipalMappingNotReferenced");
        let should = !exp[1];
        if reported != should {
            fails.push((if reported { "spurious-not-referenced-soft-error" } else { "missing-not-referenced-soft-error" }.into(), format!("crash thread references the principal mapping = {}, soft error reported = {reported}", exp[1])));
        }
    }
    fails
}

fn cases(thorough: bool) -> Vec<Case> {
    let mut v = Vec::new();
    let sizes = [MODES.len(), MODES.len(), MODES.len()];
    let mut tuples: Vec<Vec<usize>> = Vec::new();
    if thorough {
        mdv_core::lat::product(&sizes, |t| tuples.push(t.to_vec()));
    } else {
        mdv_core::lat::lat(&sizes, 2, |t| tuples.push(t.to_vec()));
    }
    for t in tuples {
        for principal in 0..8 {
            for ctx in 0..5 {
                if !thorough && ctx >= 2 && t.iter().filter(|x| **x != 0).count() > 1 {
                    continue;
                }
                v.push(Case { modes: [t[0], t[1], t[2]], principal, ctx, sanitize: false, flavour: 0 });
                if ctx < 2 {
                    v.push(Case { modes: [t[0], t[1], t[2]], principal, ctx, sanitize: true, flavour: 0 });
                }
                // crowded targets with the size limit engaged (the test threads' stacks are cut to 2 KiB)
                if ctx < 2 && (principal == 0 || principal == 3 || principal == 4) && (thorough || t.iter().filter(|x| **x != 0).count() <= 1) {
                    v.push(Case { modes: [t[0], t[1], t[2]], principal, ctx, sanitize: false, flavour: 1 });
                    v.push(Case { modes: [t[0], t[1], t[2]], principal, ctx, sanitize: false, flavour: 2 });
                }
            }
        }
    }
    v
}

pub fn run(ctx: &Ctx, rep: &mut Report) {
    let cs = cases(ctx.tier.is_thorough());
    let mut chunks: Vec<Vec<Case>> = Vec::new();
    for fl in 0..3u8 {
        let of: Vec<Case> = cs.iter().filter(|c| c.flavour == fl).cloned().collect();
        if of.is_empty() {
            continue;
        }
        let per = of.len().div_ceil(if fl == 0 { 12 } else { 4 });
        chunks.extend(of.chunks(per).map(|c| c.to_vec()));
    }
    let results = par_map(&chunks, |_, chunk| {
        let mut t = make_target(chunk[0].flavour);
        let mut out = Vec::new();
        for c in chunk {
            t.p.quiesce();
            let f = run_case(&mut t, c);
            out.push((c.clone(), f));
        }
        out
    });
    let (mut kept, mut dropped) = (0u64, 0u64);
    for chunk in results {
        for (c, fails) in chunk {
            rep.evaluations += 1;
            if c.modes.iter().any(|m| *m != 0) && c.principal != 2 {
                rep.nontrivial += 1;
            }
            if c.modes.iter().any(|m| matches!(*m, 1 | 2 | 3)) {
                kept += 1;
            } else {
                dropped += 1;
            }
            if rep.samples.len() < 5 && c.modes[0] != 0 && c.modes[1] != 0 {
                rep.sample(c.to_json());
            }
            for (k, m) in fails {
                rep.violation(&format!("dump/{k}"), &m, c.to_json());
            }
        }
    }
    rep.set("end_to_end", json!({"cases": cs.len(), "cases_with_a_planted_reference": kept, "cases_without": dropped}));
}

pub fn replay(case: &Value, rep: &mut Report) {
    let Some(c) = Case::from_json(case) else {
        rep.machinery("bad replay".into());
        return;
    };
    let mut t = make_target(c.flavour);
    rep.evaluations += 1;
    for (k, m) in run_case(&mut t, &c) {
        rep.violation(&format!("dump/{k}"), &m, case.clone());
    }
}
