//! C08 — the module list reflects the loaded ELF images.
//!
//! Exhaustive over a menu: fixture images {build id sha1 / 8 bytes / none (text fold) / all-zero;
//! SONAME / none; non-ELF; truncated; embedded in an archive at offset 4096} x mapping mode
//! {dlopen, whole-file mmap, executable mmap at offset 4096, unlinked after loading} x file names
//! {plain, spaces, non-ASCII, .so.N version suffixes} x user-mapping lists {none, disjoint, wholly
//! containing a module, partially overlapping}, plus whatever the puppet itself loads (its
//! binary, libc, ld.so, vDSO). Oracle: own parse of /proc/<pid>/maps + independent ELF reader.

use crate::dump::{dump_mem, DumpOpts, DumpResult, UserMap};
use crate::puppet::{Kind, Puppet};
use crate::shapes::par_map;
use crate::Ctx;
use mdv_core::elfref::ElfRef;
use mdv_core::mapsref::{parse_maps, Line};
use mdv_core::mdparse::Dump;
use mdv_core::{json, Report, Value};

const FIX: &str = "/verif/target/fixtures";

#[derive(Clone, Debug)]
pub struct Case {
    /// libraries to dlopen (file names inside the fixture dir)
    dlopen: Vec<String>,
    /// whole-file / offset mappings: (file, offset, len, prot)
    maps: Vec<(String, u64, u64, String)>,
    /// dlopen this one and unlink its file afterwards
    deleted: bool,
    /// 0 none, 1 disjoint, 2 wholly containing the first dlopen'ed module, 3 partially overlapping it,
    /// 4 two entries in descending address order (containing one second), 5 two entries, containing one first
    user: u8,
    /// tell the writer (direct auxv) that the program entry point lies in the first dlopen'ed module
    entry_in_lib: bool,
    /// load a library, unlink it, create a DIFFERENT library at the same path and map that too:
    /// two modules with the same (sanitised) path but different contents
    replaced: bool,
    /// the target's executable: 0 the ordinary (PIE) puppet; 1 the position-dependent build (ET_EXEC at
    /// 0x400000); 2 that build started from a copy which is unlinked afterwards; 3 ... and whose path then
    /// holds a different file
    exe: u8,
}

impl Case {
    fn to_json(&self) -> Value {
        json!({"dlopen": self.dlopen, "maps": self.maps.iter().map(|m| json!([m.0, m.1, m.2, m.3])).collect::<Vec<_>>(), "deleted": self.deleted, "user": self.user, "entry_in_lib": self.entry_in_lib, "replaced": self.replaced, "exe": self.exe})
    }
    fn from_json(v: &Value) -> Option<Case> {
        Some(Case {
            dlopen: v.get("dlopen")?.as_array()?.iter().filter_map(|x| x.as_str().map(|s| s.to_string())).collect(),
            maps: v.get("maps")?.as_array()?.iter().filter_map(|m| Some((m.get(0)?.as_str()?.to_string(), m.get(1)?.as_u64()?, m.get(2)?.as_u64()?, m.get(3)?.as_str()?.to_string()))).collect(),
            deleted: v.get("deleted")?.as_bool()?,
            user: v.get("user")?.as_u64()? as u8,
            entry_in_lib: v.get("entry_in_lib").and_then(|b| b.as_bool()).unwrap_or(false),
            replaced: v.get("replaced").and_then(|b| b.as_bool()).unwrap_or(false),
            exe: v.get("exe").and_then(|b| b.as_u64()).unwrap_or(0) as u8,
        })
    }
}

struct Group {
    start: u64,
    end: u64,
    /// end including an inaccessible private line that directly follows (the linker's reserved
    /// range; merging it is permitted, see C13)
    end_with_gap: u64,
    first_offset: u64,
    any_exec: bool,
    name: Vec<u8>, // sanitized (no " (deleted)")
    deleted: bool,
}

fn groups(lines: &[Line]) -> Vec<Group> {
    let mut out: Vec<Group> = Vec::new();
    for l in lines {
        let Some(n) = l.clean_name() else { continue };
        if let Some(g) = out.last_mut() {
            if g.name == n && g.end == l.start && g.deleted == l.name.as_ref().map(|x| x.ends_with(b" (deleted)")).unwrap_or(false) {
                g.end = l.end;
                g.end_with_gap = l.end;
                g.any_exec |= l.executable();
                continue;
            }
        }
        out.push(Group { start: l.start, end: l.end, end_with_gap: l.end, first_offset: l.offset, any_exec: l.executable(), name: n, deleted: l.name.as_ref().map(|x| x.ends_with(b" (deleted)")).unwrap_or(false) });
    }
    for g in out.iter_mut() {
        if g.any_exec && g.name.contains(&b'/') {
            if let Some(gap) = lines.iter().find(|l| l.start == g.end && l.inaccessible_private() && l.name.is_none()) {
                g.end_with_gap = gap.end;
            }
        }
    }
    out
}

fn fold_gaps(lines: &[Line]) -> Vec<Line> {
    // the linker's reserved gaps: an inaccessible private anonymous line directly after an executable
    // file group (or between two parts of it) belongs to that file's extent; give it the file's name
    let mut v = lines.to_vec();
    for i in 1..v.len() {
        if v[i].name.is_none() && v[i].inaccessible_private() && v[i].offset == 0 && v[i - 1].end == v[i].start {
            if let Some(n) = v[i - 1].clean_name() {
                if n.contains(&b'/') && (i + 1 < v.len() && v[i + 1].start == v[i].end && v[i + 1].clean_name().as_deref() == Some(&n[..])) {
                    v[i].name = Some(n);
                }
            }
        }
    }
    v
}

/// The module-list oracle proper: everything it needs is the target's pid (memory map, files), the
/// caller's user-mapping list, the program entry point in force, and the image.  `saved_content` holds
/// the bytes of files that were unlinked after loading (their content cannot be read back from disk);
/// groups of unlinked files without saved content are not judged (`lenient_deleted`).
pub fn judge_modules(pid: i32, user: &[UserMap], entry: u64, saved_content: &[(String, Vec<u8>)], lenient_deleted: bool, bytes: &[u8]) -> (Vec<(String, String)>, usize) {
    let mut fails: Vec<(String, String)> = Vec::new();
    let lines = fold_gaps(&parse_maps(&std::fs::read(format!("/proc/{pid}/maps")).unwrap_or_default()).unwrap_or_default());
    let gs = groups(&lines);
    let bytes = bytes.to_vec();
    let d = Dump::parse(&bytes);
    // expected modules
    let mut expected: Vec<(u64, u64, Vec<u8>, String, u64)> = Vec::new(); // base, size, id, name, size incl. trailing reserved gap
    for g in &gs {
        if !g.name.contains(&b'/') && g.name != b"[vdso]" {
            continue;
        }
        let size = g.end - g.start;
        if !(g.first_offset == 0 || g.any_exec) || size < 4096 {
            continue;
        }
        if user.iter().any(|u| g.start as usize >= u.start && g.end as usize <= u.start + u.size) {
            continue; // suppressed by a user mapping that wholly contains it
        }
        let path = String::from_utf8_lossy(&g.name).into_owned();
        let image: Vec<u8> = if g.name == b"[vdso]" {
            read_target(pid, g.start, size as usize)
        } else if let Some((_, content)) = saved_content.iter().find(|(pth, _)| pth == &path).filter(|_| g.deleted) {
            content.clone()
        } else {
            // regular files only (a mapping of /dev/zero must not make the oracle read the device for ever)
            let regular = std::fs::metadata(&path).map(|m| m.is_file() && m.len() <= (256 << 20)).unwrap_or(false);
            let all = if regular && !path.starts_with("/dev/") { std::fs::read(&path).unwrap_or_default() } else { Vec::new() };
            if g.first_offset as usize <= all.len() { all[g.first_offset as usize..].to_vec() } else { vec![] }
        };
        let Ok(r) = ElfRef::parse(&image) else { continue };
        if !r.well_formed() {
            continue;
        }
        let Some(id) = r.expected_build_id() else { continue };
        if id.is_empty() || id.iter().all(|b| *b == 0) {
            continue;
        }
        let path = if g.name == b"[vdso]" { "linux-gate.so".to_string() } else { path };
        let name = {
            match r.expected_soname() {
                Some(Some(so)) => {
                    let pb = std::path::PathBuf::from(&path);
                    if g.any_exec && g.first_offset != 0 {
                        pb.join(&so).to_string_lossy().into_owned()
                    } else {
                        pb.with_file_name(&so).to_string_lossy().into_owned()
                    }
                }
                _ => path.clone(),
            }
        };
        expected.push((g.start, size, id, name, g.end_with_gap - g.start));
    }
    // compare
    let listed: Vec<&mdv_core::mdparse::Module> = d.modules.iter().collect();
    for (base, size, id, name, size_gap) in &expected {
        let hits: Vec<&&mdv_core::mdparse::Module> = listed.iter().filter(|m| m.base == *base).collect();
        let short = name.rsplit('/').next().unwrap_or(name);
        match hits.len() {
            0 => fails.push(("module-missing".into(), format!("no module record for {name} at {base:#x} (+{size:#x})"))),
            1 => {
                let m = hits[0];
                if m.size as u64 != *size && m.size as u64 != *size_gap {
                    fails.push(("module-extent".into(), format!("{short}: size {:#x}, the merged extent of its mappings is {size:#x}", m.size)));
                }
                if m.cv_signature != Some(mdv_core::mdparse::CV_SIGNATURE_ELF) || &m.cv_id != id {
                    fails.push(("module-build-id".into(), format!("{short}: debug record holds {} but the independent reader finds {}", mdv_core::hex(&m.cv_id), mdv_core::hex(id))));
                }
                if m.name.as_deref() != Some(name.as_str()) {
                    fails.push(("module-name".into(), format!("module at {base:#x} is named {:?}, expected {name:?}", m.name)));
                }
            }
            k => fails.push(("module-duplicated".into(), format!("{short}: {k} module records"))),
        }
    }
    for m in &listed {
        let is_user = user.iter().any(|u| u.start as u64 == m.base);
        let in_unjudged_deleted = lenient_deleted && gs.iter().any(|g| g.deleted && g.start == m.base && !saved_content.iter().any(|(pth, _)| pth.as_bytes() == &g.name[..]));
        if !is_user && !in_unjudged_deleted && !expected.iter().any(|e| e.0 == m.base) {
            fails.push(("unexpected-module".into(), format!("module record {:?} at {:#x} (+{:#x}, id {}) corresponds to no file-backed group with a non-zero build id", m.name, m.base, m.size, mdv_core::hex(&m.cv_id))));
        }
    }
    for u in user {
        match listed.iter().find(|m| m.base == u.start as u64) {
            Some(m) => {
                if m.size as usize != u.size || m.name.as_deref() != Some(u.name.as_str()) || m.cv_id != u.id {
                    fails.push(("user-mapping-altered".into(), format!("user mapping {} listed as base {:#x} size {:#x} name {:?} id {}", u.name, m.base, m.size, m.name, mdv_core::hex(&m.cv_id))));
                }
            }
            None => fails.push(("user-mapping-missing".into(), format!("user mapping {} is not in the module list", u.name))),
        }
    }
    // first module contains the entry point
    if let Some(m) = listed.first() {
        if !(entry >= m.base && entry < m.base + m.size as u64) && expected.iter().any(|e| entry >= e.0 && entry < e.0 + e.1) {
            fails.push(("entry-module-not-first".into(), format!("the first module {:?} does not contain the program entry point {entry:#x}", m.name)));
        }
    }
    // no overlaps (user mappings that partially overlap a target module are the caller's business)
    let mut sorted: Vec<&&mdv_core::mdparse::Module> = listed.iter().filter(|m| !user.iter().any(|u| u.start as u64 == m.base)).collect();
    sorted.sort_by_key(|m| m.base);
    for w in sorted.windows(2) {
        if w[0].base + w[0].size as u64 > w[1].base {
            fails.push(("modules-overlap".into(), format!("{:?} and {:?} overlap", w[0].name, w[1].name)));
        }
    }
    (fails, expected.len())
}

fn read_target(pid: i32, addr: u64, len: usize) -> Vec<u8> {
    use std::os::unix::fs::FileExt;
    let mut b = vec![0u8; len];
    match std::fs::File::open(format!("/proc/{pid}/mem")).and_then(|f| f.read_exact_at(&mut b, addr)) {
        Ok(()) => b,
        Err(_) => Vec::new(),
    }
}

pub fn run_case(c: &Case) -> (Vec<(String, String)>, usize) {
    let mut fails = Vec::new();
    let dir = format!("/verif/target/tmp/c08_{}_{:?}", std::process::id(), std::thread::current().id()).replace(['(', ')'], "");
    let _ = std::fs::create_dir_all(&dir);
    let mut saved_content: Vec<(String, Vec<u8>)> = Vec::new();
    let mut p = match c.exe {
        0 => Puppet::spawn(),
        1 => Puppet::spawn_from("/verif/target/puppet_nopie", &[], None),
        _ => {
            let path = format!("{dir}/exe_nopie");
            let _ = std::fs::copy("/verif/target/puppet_nopie", &path);
            let p = Puppet::spawn_from(&path, &[], None);
            saved_content.push((path.clone(), std::fs::read(&path).unwrap_or_default()));
            let _ = std::fs::remove_file(&path);
            if c.exe == 3 {
                let _ = std::fs::copy("/verif/target/puppet", &path);
            }
            p
        }
    };
    p.add_thread(Kind::Block);
    for f in &c.dlopen {
        let path = format!("{FIX}/{f}");
        let _ = p.cmd(&format!("dlopen {}", mdv_core::hex(path.as_bytes())));
    }
    if c.deleted {
        let path = format!("{dir}/libdeleted.so");
        let _ = std::fs::copy(format!("{FIX}/libdeleted.so"), &path);
        let _ = p.cmd(&format!("dlopen {}", mdv_core::hex(path.as_bytes())));
        saved_content.push((path.clone(), std::fs::read(&path).unwrap_or_default()));
        let _ = std::fs::remove_file(&path);
    }
    if c.replaced {
        let path = format!("{dir}/libreplaced.so");
        let _ = std::fs::copy(format!("{FIX}/libfix_sha1.so"), &path);
        let _ = p.cmd(&format!("dlopen {}", mdv_core::hex(path.as_bytes())));
        saved_content.push((path.clone(), std::fs::read(&path).unwrap_or_default()));
        let _ = std::fs::remove_file(&path);
        // something in between so that the two images are not neighbours
        let _ = p.pattern(1, "hole", "rw");
        let _ = std::fs::copy(format!("{FIX}/libfix_8.so"), &path);
        // (dlopen would hand back the already loaded object of that name: map the new file directly)
        let _ = p.mapfile(path.as_bytes(), 0, 12288, "rx");
    }
    for (f, off, len, prot) in &c.maps {
        let path = format!("{FIX}/{f}");
        let _ = p.mapfile(path.as_bytes(), *off, *len, prot);
    }
    p.quiesce();
    let lines = fold_gaps(&parse_maps(&p.maps_text()).unwrap_or_default());
    let gs = groups(&lines);
    let (phdr, phnum, gate, mut entry) = p.auxv();
    // user mappings relative to the first dlopen'ed module
    let mut o = DumpOpts::default();
    let first_lib = c.dlopen.first().and_then(|f| gs.iter().find(|g| g.name.ends_with(f.as_bytes())));
    let mut user: Vec<UserMap> = Vec::new();
    match (c.user, first_lib) {
        (1, _) => user.push(UserMap { start: 0x10_0000, size: 0x2000, name: "/user/disjoint.so".into(), id: (1..=16).collect() }),
        (2, Some(g)) => user.push(UserMap { start: (g.start - 0x1000) as usize, size: (g.end - g.start + 0x2000) as usize, name: "/user/containing.so".into(), id: (10..=29).collect() }),
        (3, Some(g)) => user.push(UserMap { start: (g.start + 0x1000) as usize, size: (g.end - g.start) as usize, name: "/user/partial.so".into(), id: vec![7; 20] }),
        (4, Some(g)) => {
            // two entries in DESCENDING address order (the natural load order): the containing one comes second
            user.push(UserMap { start: (g.end_with_gap + 0x40_0000) as usize, size: 0x1000, name: "/user/high.so".into(), id: vec![9; 16] });
            user.push(UserMap { start: (g.start - 0x1000) as usize, size: (g.end_with_gap - g.start + 0x2000) as usize, name: "/user/containing-second.so".into(), id: (40..=59).collect() });
        }
        (5, Some(g)) => {
            // ascending order, the containing one first, then an unrelated low one
            user.push(UserMap { start: (g.start - 0x1000) as usize, size: (g.end_with_gap - g.start + 0x2000) as usize, name: "/user/containing-first.so".into(), id: (60..=79).collect() });
            user.push(UserMap { start: 0x20_0000, size: 0x1000, name: "/user/low.so".into(), id: vec![3; 16] });
        }
        // identifiers a caller passes when it does not know the build id: none at all / all zero bytes
        (6, _) => user.push(UserMap { start: 0x10_0000, size: 0x2000, name: "/user/no-identifier.so".into(), id: vec![] }),
        (7, Some(g)) => {
            user.push(UserMap { start: (g.start - 0x1000) as usize, size: (g.end_with_gap - g.start + 0x2000) as usize, name: "/user/containing-zero-identifier.so".into(), id: vec![0; 16] });
            user.push(UserMap { start: 0x30_0000, size: 0x1000, name: "/user/zero-identifier.so".into(), id: vec![0; 20] });
        }
        _ => {}
    }
    o.user_mappings = user.clone();
    if let (true, Some(g)) = (c.entry_in_lib, first_lib) {
        entry = g.start + 0x1100;
        o.direct_auxv = Some((phnum, phdr, gate, entry));
    }
    let bytes = match dump_mem(p.pid, &o) {
        DumpResult::Ok(b) => b,
        other => {
            fails.push(("dump-failed".into(), format!("{other:?}")));
            return (fails, 0);
        }
    };
    let (f2, n_expected) = judge_modules(p.pid, &user, entry, &saved_content, false, &bytes);
    fails.extend(f2);
    let _ = std::fs::remove_dir_all(&dir);
    (fails, n_expected)
}

fn menu(thorough: bool) -> Vec<Case> {
    let libs = ["libfix_sha1.so", "libfix_8.so", "libfix_none.so", "libfix_zero.so", "libfix_nosoname.so", "lib with space.so", "libnonascii_\u{e9}.so", "libver.so.6.0.32", "libver2.so.3.34.2rc5", "libastral_\u{1f980}_x.so"];
    let mut v = Vec::new();
    for user in 0..8u8 {
        // each library alone
        for l in libs {
            if !thorough && user >= 2 && l != "libfix_sha1.so" && l != "libfix_none.so" {
                continue;
            }
            v.push(Case { dlopen: vec![l.to_string()], maps: vec![], deleted: false, user, entry_in_lib: false, replaced: false, exe: 0 });
        }
        // all together + deleted + raw mappings
        v.push(Case { dlopen: libs.iter().map(|s| s.to_string()).collect(), maps: vec![], deleted: true, user, entry_in_lib: false, replaced: false, exe: 0 });
    }
    let raw: Vec<(String, u64, u64, String)> = vec![
        ("libfix_sha1.so".into(), 0, 8192, "r".into()),
        ("libfix_8.so".into(), 0, 12288, "rx".into()),
        ("plain.bin".into(), 0, 8192, "r".into()),
        ("plain.bin".into(), 0, 8192, "rx".into()),
        ("truncated.so".into(), 0, 8192, "r".into()),
        ("archive.bin".into(), 4096, 12288, "rx".into()),
        ("archive.bin".into(), 4096, 8192, "r".into()),
        ("libfix_nosoname.so".into(), 4096, 4096, "r".into()),
    ];
    for m in &raw {
        v.push(Case { dlopen: vec![], maps: vec![m.clone()], deleted: false, user: 0, entry_in_lib: false, replaced: false, exe: 0 });
    }
    v.push(Case { dlopen: vec!["libfix_sha1.so".into()], maps: raw.clone(), deleted: true, user: 1, entry_in_lib: false, replaced: false, exe: 0 });
    v.push(Case { dlopen: vec![], maps: vec![], deleted: true, user: 0, entry_in_lib: false, replaced: false, exe: 0 });
    v.push(Case { dlopen: vec![], maps: vec![], deleted: false, user: 0, entry_in_lib: false, replaced: true, exe: 0 });
    v.push(Case { dlopen: vec!["libfix_nosoname.so".into()], maps: vec![], deleted: true, user: 1, entry_in_lib: false, replaced: true, exe: 0 });
    for l in ["libfix_sha1.so", "libfix_none.so", "lib with space.so"] {
        v.push(Case { dlopen: vec![l.to_string(), "libfix_8.so".into()], maps: vec![], deleted: false, user: 0, entry_in_lib: true, replaced: false, exe: 0 });
    }
    // position-dependent main executable: intact, unlinked, replaced on disk
    for exe in 1..=3u8 {
        v.push(Case { dlopen: vec![], maps: vec![], deleted: false, user: 0, entry_in_lib: false, replaced: false, exe });
        v.push(Case { dlopen: vec!["libfix_sha1.so".into()], maps: vec![], deleted: true, user: 1, entry_in_lib: false, replaced: false, exe });
    }
    v
}

pub fn run(ctx: &Ctx, rep: &mut Report) {
    rep.rule = "menu: 10 fixture libraries (build id sha1 / 8 bytes / none / all-zero, with/without SONAME, names with spaces / non-ASCII / characters outside the BMP / .so.N suffixes) dlopen'ed alone and together, a library unlinked after loading, a library replaced on disk by a different one at the same path with both mapped, whole-file and offset mappings of ELF / non-ELF / truncated / archive-embedded images, each under 8 user-mapping lists (none, disjoint, containing, partially overlapping, two entries in descending / ascending order, an entry without identifier, entries with all-zero identifiers); a position-dependent (ET_EXEC) main executable intact / unlinked / replaced on disk; plus the puppet binary, libc, ld.so and the vDSO in every case. nontrivial = cases whose expected module list has at least 4 entries".into();
    rep.assume("shapes whose expected treatment the statement leaves open (a non-executable mapping at a non-zero offset) are in the menu only as 'must not produce a wrong module', never as 'must be listed'");
    if let Some(case) = &ctx.replay {
        let Some(c) = Case::from_json(case) else {
            rep.machinery("bad replay".into());
            return;
        };
        rep.evaluations += 1;
        for (k, m) in run_case(&c).0 {
            rep.violation(&k, &m, case.clone());
        }
        return;
    }
    let cases = menu(ctx.tier.is_thorough());
    let results = par_map(&cases, |_, c| run_case(c));
    let mut total_expected = 0;
    for (c, (fails, n)) in cases.iter().zip(results) {
        rep.evaluations += 1;
        total_expected += n;
        if n >= 4 {
            rep.nontrivial += 1;
        }
        rep.outcome(mdv_core::fnv(format!("{n}/{}", fails.len()).as_bytes()));
        if rep.samples.len() < 3 && c.user >= 2 {
            rep.sample(c.to_json());
        }
        for (k, m) in fails {
            rep.violation(&k, &m, c.to_json());
        }
    }
    rep.set("module_records_checked", json!(total_expected));
    if total_expected == 0 {
        rep.machinery("no expected modules: vacuous".into());
    }
    rep.states = rep.evaluations;
    rep.transitions = total_expected as u64;
    rep.traces = rep.evaluations;
    rep.exhaustive = true;
}
