//! C04 — the thread list is a complete, register-accurate, consistent snapshot.
//!
//! (a) completeness: thread counts 1..64, spin/block mixes, threads with a null stack pointer
//!     (must be skipped AND reported); each tid exactly once.
//! (b) register accuracy (LAT, 1 deviation): every register of a spin thread (16 GPR, 16 XMM,
//!     mxcsr, x87 control word) x boundary values, one thread per register file; block threads:
//!     the registers the syscall ABI preserves.
//! (d) single instant: busy counter threads under the StopProcess fail point (so that only the
//!     ptrace stop freezes them): register, stack slot and app-memory word must agree within one step.
//! (c) single instant, trace form: on the intercepted libc trace every listed thread's attach precedes
//!     its wait precedes all its register reads, and every read of target memory lies after the last
//!     wait and before the first detach.
//! (e) every subset of 4 spin threads exits between enumeration and attach (placement callback at the
//!     attach of the 2nd / 4th thread, StopProcess fail point on): exited threads are listed with a valid
//!     context or omitted and reported; survivors are listed once with their own state.

use crate::dump::{dump_mem, DumpOpts, DumpResult};
use crate::puppet::*;
use crate::shapes::par_map;
use crate::Ctx;
use mdv_core::mdparse::{ctx as off, Dump, ST_MOZ_SOFT_ERRORS};
use mdv_core::{json, Report, Value};

thread_local! { static T0: std::time::Instant = std::time::Instant::now(); }
const GPR_VALUES: [u64; 6] = [0, 1, u64::MAX, 1 << 63, 0x0000_0000_ffff_ffff, 0xffff_ffff_0000_0000];
const RSP_VALUES: [u64; 5] = [0x10, 1 << 63, 0xffff_ffff_0000_0000, 0x7fff_ffff_f000, 0x0000_7000_0000_0008];
const MXCSR_VALUES: [u32; 5] = [0x1f80 | 0x8000, 0x1f80 | 0x6000, 0x1fbf, 0x0000, 0x1f80 | 0x0040];
const CW_VALUES: [u16; 4] = [0x027f, 0x0f7f, 0x0040, 0x137f];
const XMM_VALUES: [u128; 4] = [0, u128::MAX, 1 << 127, 0x0123_4567_89ab_cdef_0011_2233_4455_6677];

// offsets of rax rbx rcx rdx rsi rdi rbp rsp r8..r15 in CONTEXT_AMD64 (slot order of the puppet)
const CTX_GPR: [usize; 16] = [off::RAX, off::RBX, off::RCX, off::RDX, off::RSI, off::RDI, off::RBP, off::RSP, off::R8, off::R8 + 8, off::R8 + 16, off::R8 + 24, off::R8 + 32, off::R8 + 40, off::R8 + 48, off::R8 + 56];

fn sentinel(thread: usize, reg: usize) -> u64 {
    0x5a00_0000_0000_0000 | ((thread as u64) << 32) | ((reg as u64) << 16) | 0xbeef
}

#[derive(Clone, Debug)]
pub struct RegFile {
    kind: Kind,
    /// (register dimension, value index): dimension 0..16 gpr, 16..32 xmm, 32 mxcsr, 33 cw; None = base file
    dev: Option<(usize, usize)>,
}

struct Expect {
    tid: i32,
    kind: Kind,
    gpr: [u64; 16],
    xmm: [u128; 16],
    mxcsr: u32,
    cw: u16,
    page: u64,
    skipped: bool,
    dev: Option<(usize, usize)>,
}

fn setup_thread(p: &mut Puppet, i: usize, rf: &RegFile) -> Expect {
    let t = p.mkthread(rf.kind);
    let mut gpr = [0u64; 16];
    for r in 0..16 {
        gpr[r] = if r == RSP { p.gpr(t, RSP) } else { sentinel(i, r) };
    }
    let mut xmm = [0u128; 16];
    for x in 0..16 {
        xmm[x] = ((sentinel(i, 16 + x) as u128) << 64) | sentinel(i, 48 + x) as u128;
    }
    let mut mxcsr = 0x1f80u32;
    let mut cw = 0x037fu16;
    if let Some((dim, vi)) = rf.dev {
        match dim {
            d if d < 16 => gpr[d] = if d == RSP { RSP_VALUES[vi % RSP_VALUES.len()] } else { GPR_VALUES[vi % GPR_VALUES.len()] },
            d if d < 32 => xmm[d - 16] = XMM_VALUES[vi % XMM_VALUES.len()],
            32 => mxcsr = MXCSR_VALUES[vi % MXCSR_VALUES.len()],
            _ => cw = CW_VALUES[vi % CW_VALUES.len()],
        }
    }
    for r in 0..16 {
        p.set_gpr(t, r, gpr[r]);
    }
    for x in 0..16 {
        p.set_xmm(t, x, xmm[x]);
    }
    p.set_mxcsr(t, mxcsr);
    p.set_fpucw(t, cw);
    let tid = p.start(t);
    Expect { tid, kind: rf.kind, gpr, xmm, mxcsr, cw, page: p.threads[t].page, skipped: false, dev: rf.dev }
}

fn judge_thread(p: &Puppet, e: &Expect, cb: &[u8], stack_start: u64, stack_len: u32) -> Vec<(String, String)> {
    let mut f = Vec::new();
    let dev = e.dev.map(|(d, v)| format!(" [deviation: dim {d} value #{v}]")).unwrap_or_default();
    let regs_checked: Vec<usize> = match e.kind {
        Kind::Spin => (0..16).collect(),
        Kind::Block => vec![RBX, RBP, R8, R8 + 1, R8 + 4, R8 + 5, R8 + 6, R8 + 7],
        Kind::Count => vec![],
    };
    for r in regs_checked {
        let got = off::u64_at(cb, CTX_GPR[r]);
        if got != e.gpr[r] {
            f.push((format!("register/{}/{}", e.kind.name(), GPR_NAMES[r]), format!("thread {} ({}): {} is {got:#x} in the dump, the thread holds {:#x}{dev}", e.tid, e.kind.name(), GPR_NAMES[r], e.gpr[r])));
        }
    }
    if e.kind == Kind::Block {
        let want = [(RDI, e.page + OFF_FUTEX), (RSI, 128), (RDX, 0), (R8 + 2, 0)];
        for (r, w) in want {
            let got = off::u64_at(cb, CTX_GPR[r]);
            if got != w {
                f.push((format!("register/block/{}", GPR_NAMES[r]), format!("thread {} (block): {} is {got:#x}, the syscall argument is {w:#x}", e.tid, GPR_NAMES[r])));
            }
        }
        let rsp = off::u64_at(cb, off::RSP);
        let th = p.threads.iter().find(|t| t.tid == e.tid).unwrap();
        if !(rsp >= th.stack_lo && rsp < th.stack_hi) {
            f.push(("register/block/rsp".into(), format!("thread {} (block): rsp {rsp:#x} outside its stack [{:#x},{:#x})", e.tid, th.stack_lo, th.stack_hi)));
        }
        let _ = (stack_start, stack_len);
    }
    if e.kind != Kind::Count {
        // instruction pointer
        let rip = off::u64_at(cb, off::RIP);
        let ls = p.read_u64(e.page + OFF_LOOP_START);
        let le = p.read_u64(e.page + OFF_LOOP_END);
        let ok = match e.kind {
            Kind::Spin => rip >= e.page + ls && rip < e.page + le,
            _ => {
                let se = p.read_u64(e.page + OFF_SYSCALL_END);
                rip == e.page + se || rip == e.page + se - 2 || (rip >= e.page + ls && rip < e.page + le)
            }
        };
        if !ok {
            f.push((format!("register/{}/rip", e.kind.name()), format!("thread {}: rip {rip:#x} is not inside its parked loop [{:#x},{:#x})", e.tid, e.page + ls, e.page + le)));
        }
        // flags: bit 1 always set, IF set, no trap/direction/alignment flags
        let efl = off::u32_at(cb, off::EFLAGS);
        if efl & 0x2 == 0 || efl & 0x200 == 0 || efl & (0x100 | 0x400 | 0x40000) != 0 {
            f.push(("register/eflags".into(), format!("thread {}: eflags {efl:#x} (bit 1 / IF must be set, TF/DF/AC clear)", e.tid)));
        }
        // segments as every 64-bit Linux user thread has them
        let segs = [(off::CS, 0x33u16, "cs"), (off::SS, 0x2b, "ss"), (off::DS, 0, "ds"), (off::ES, 0, "es"), (off::FS, 0, "fs"), (off::GS, 0, "gs")];
        for (o, w, n) in segs {
            let got = off::u16_at(cb, o);
            if got != w {
                f.push((format!("register/segment/{n}"), format!("thread {}: {n} is {got:#x}, expected {w:#x}", e.tid)));
            }
        }
        // SSE / x87 control
        for x in 0..16 {
            let o = off::FS_XMM_REGISTERS + 16 * x;
            let got = u128::from_le_bytes(cb[o..o + 16].try_into().unwrap());
            if got != e.xmm[x] {
                f.push((format!("register/{}/xmm", e.kind.name()), format!("thread {}: xmm{x} is {got:#x}, the thread holds {:#x}{dev}", e.tid, e.xmm[x])));
                break;
            }
        }
        let got_mx = off::u32_at(cb, off::FS_MXCSR);
        // the sticky exception flags (low 6 bits) may be set by the thread's own earlier arithmetic
        if got_mx & !0x3f != e.mxcsr & !0x3f {
            f.push(("register/mxcsr".into(), format!("thread {}: mxcsr {got_mx:#x}, the thread loaded {:#x}{dev}", e.tid, e.mxcsr)));
        }
        let got_cw = off::u16_at(cb, off::FS_CONTROL_WORD);
        if got_cw != e.cw {
            f.push(("register/x87-control-word".into(), format!("thread {}: control word {got_cw:#x}, the thread loaded {:#x}{dev}", e.tid, e.cw)));
        }
    }
    f
}

/// One puppet with the given register files (one thread each); returns failures.
/// `optmode`: 0 default options; 1 size limit 0 (always exceeded) with the LAST thread blamed; 2 the same
/// plus stack sanitising and skip-unreferenced; 3 size limit 0 with a thread in the middle blamed;
/// 4 the target was stopped by job control (SIGTSTP) before the request; 5 stopped by SIGSTOP before the request;
/// 6 the null-stack-pointer helper threads are created before the ordinary threads;
/// 7 the kernel's pid counter wraps around between the first and the remaining threads, so that younger
///   threads have SMALLER thread ids than an older one (the task directory is listed in creation order);
/// 8 the main thread has exited (pthread_exit: a zombie thread-group leader that cannot be attached) while the
///   other threads live on; the first of them is blamed.
fn run_regfiles(files: &[RegFile], null_sp_threads: usize) -> (Value, Vec<(String, String)>, u64) {
    run_regfiles_opt(files, null_sp_threads, 0)
}

fn run_regfiles_opt(files: &[RegFile], null_sp_threads: usize, optmode: u8) -> (Value, Vec<(String, String)>, u64) {
    let mut p = Puppet::spawn();
    let mut exp = Vec::new();
    // sandbox-helper look-alikes: spin threads with a null stack pointer; with optmode 6 they are created
    // FIRST, so that ordinary threads follow them in the kernel's thread list
    let mut null_exp: Vec<Expect> = Vec::new();
    let mk_nulls = |p: &mut Puppet, null_exp: &mut Vec<Expect>| {
        for k in 0..null_sp_threads {
            let t = p.mkthread(Kind::Spin);
            for r in 0..16 {
                p.set_gpr(t, r, sentinel(200 + k, r));
            }
            p.set_gpr(t, RSP, 0);
            let tid = p.start(t);
            null_exp.push(Expect { tid, kind: Kind::Spin, gpr: [0; 16], xmm: [0; 16], mxcsr: 0, cw: 0, page: p.threads[t].page, skipped: true, dev: Some((RSP, 100 + k)) });
        }
    };
    if optmode == 6 {
        mk_nulls(&mut p, &mut null_exp);
    }
    for (i, rf) in files.iter().enumerate() {
        exp.push(setup_thread(&mut p, i, rf));
        if optmode == 7 && i == 0 {
            // burn thread ids until the counter has wrapped below the first thread's id
            let pid_max: i64 = std::fs::read_to_string("/proc/sys/kernel/pid_max").ok().and_then(|s| s.trim().parse().ok()).unwrap_or(i64::MAX);
            let first = exp[0].tid as i64;
            if pid_max <= 100_000 {
                for _ in 0..40 {
                    let last: i64 = p.cmd("burn_tids 2000").ok().and_then(|r| r.first().and_then(|x| x.parse().ok())).unwrap_or(0);
                    if last != 0 && last < first {
                        break;
                    }
                }
            }
        }
    }
    if optmode == 7 && !exp.iter().skip(1).any(|e| e.tid < exp[0].tid) && exp.len() > 1 {
        // the counter did not wrap (huge pid_max or a very busy machine): the shape is not available here
        return (json!({"optmode": 7, "unavailable": true}), Vec::new(), 0);
    }
    // every third thread gets a kernel name that is not valid UTF-8 (its name is unreadable; the
    // thread itself must still be listed)
    for (i, e) in exp.iter().enumerate() {
        if i % 3 == 1 {
            p.set_name(e.tid, if i % 2 == 0 { b"\xff\xfe" } else { b"caf\xe9-latin1" });
        }
    }
    if optmode != 6 {
        mk_nulls(&mut p, &mut null_exp);
    }
    exp.extend(null_exp);
    p.quiesce();
    let case = json!({"files": files.iter().map(|f| json!([f.kind.name(), f.dev.map(|d| json!([d.0, d.1]))])).collect::<Vec<_>>(), "null_sp_threads": null_sp_threads, "optmode": optmode});
    let mut fails = Vec::new();
    let mut o = DumpOpts::default();
    let live: Vec<i32> = exp.iter().filter(|e| !e.skipped).map(|e| e.tid).collect();
    match optmode {
        1 | 2 => {
            o.size_limit = Some(0);
            o.blamed = live.last().copied();
            if optmode == 2 {
                o.sanitize = true;
                o.skip_unref = true;
                o.principal = Some(exp[0].page as usize + 8);
            }
        }
        3 => {
            o.size_limit = Some(0);
            o.blamed = live.get(live.len() / 2).copied();
        }
        _ => {}
    }
    if optmode == 4 || optmode == 5 {
        if optmode == 4 {
            let _ = p.cmd("newpgrp");
            p.quiesce();
        }
        unsafe {
            libc::syscall(libc::SYS_kill, p.pid, if optmode == 4 { libc::SIGTSTP } else { libc::SIGSTOP });
        }
        let dl = std::time::Instant::now() + std::time::Duration::from_secs(5);
        while std::time::Instant::now() < dl && !p.status_field(p.pid, "State").unwrap_or_default().starts_with('T') {
            std::thread::sleep(std::time::Duration::from_millis(1));
        }
        if !p.status_field(p.pid, "State").unwrap_or_default().starts_with('T') {
            fails.push(("MACHINERY".into(), "the target did not stop before the request".into()));
        }
    }
    if optmode == 8 {
        let _ = p.cmd("leaderexit");
        let dl = std::time::Instant::now() + std::time::Duration::from_secs(5);
        let zombie = |pid: i32| std::fs::read_to_string(format!("/proc/{pid}/stat")).map(|s| s.rsplit(')').next().unwrap_or("").trim_start().starts_with('Z')).unwrap_or(false);
        while std::time::Instant::now() < dl && !zombie(p.pid) {
            std::thread::sleep(std::time::Duration::from_millis(1));
        }
        if !zombie(p.pid) {
            fails.push(("MACHINERY".into(), "the main thread did not exit".into()));
            return (case, fails, 0);
        }
        o.blamed = live.first().copied();
        // a zombie leader is never seen stopped: keep the writer's (bounded) wait for that short
        o.stop_timeout_ms = Some(200);
    }
    let bytes = match dump_mem(p.pid, &o) {
        DumpResult::Ok(b) => b,
        DumpResult::Err(e) => {
            fails.push(("dump-failed".into(), e));
            return (case, fails, 0);
        }
        DumpResult::Panic(m) => {
            fails.push(("panic".into(), m));
            return (case, fails, 0);
        }
    };
    let d = Dump::parse(&bytes);
    let soft = d.raw_bytes(&bytes, ST_MOZ_SOFT_ERRORS).map(|b| String::from_utf8_lossy(b).into_owned()).unwrap_or_default();
    // (a) completeness
    // (a zombie leader cannot be attached to: it is neither required nor forbidden in the list)
    let mut want: Vec<u32> = if optmode == 8 { vec![] } else { vec![p.pid as u32] };
    want.extend(exp.iter().filter(|e| !e.skipped).map(|e| e.tid as u32));
    for w in &want {
        let n = d.threads.iter().filter(|t| t.tid == *w).count();
        if n != 1 {
            fails.push((if n == 0 { "thread-missing" } else { "thread-duplicated" }.into(), format!("thread {w} appears {n} times in the thread list ({} threads in the target)", want.len())));
        }
    }
    for t in &d.threads {
        if !want.contains(&t.tid) && !(optmode == 8 && t.tid == p.pid as u32) {
            let k = if exp.iter().any(|e| e.skipped && e.tid as u32 == t.tid) { "null-sp-thread-listed" } else { "unknown-thread-listed" };
            fails.push((k.into(), format!("thread {} is listed but should not be", t.tid)));
        }
    }
    for e in exp.iter().filter(|e| e.skipped) {
        if !soft.contains("DetachSkippedThread") || !soft.contains(&e.tid.to_string()) {
            fails.push(("skipped-thread-not-reported".into(), format!("thread {} (null stack pointer) was skipped without a soft error naming it", e.tid)));
        }
    }
    // (b) registers
    let mut checked = 0;
    for e in exp.iter().filter(|e| !e.skipped) {
        if let Some(t) = d.threads.iter().find(|t| t.tid == e.tid as u32) {
            if let Some(cb) = d.loc_bytes(&bytes, &t.context) {
                if cb.len() == off::SIZE {
                    fails.extend(judge_thread(&p, e, cb, t.stack_start, t.stack.size));
                    checked += 1;
                    continue;
                }
            }
            fails.push(("context-missing".into(), format!("thread {} has no valid context", e.tid)));
        }
    }
    (case, fails, checked)
}

/// (d) single-instant check with busy counter threads.
fn run_count(n_count: usize, stop_failpoint: bool) -> (Value, Vec<(String, String)>) {
    let mut p = Puppet::spawn();
    p.unpin();
    let mut ts = Vec::new();
    for _ in 0..n_count {
        ts.push(p.add_thread(Kind::Count));
    }
    p.add_thread(Kind::Block);
    p.quiesce();
    let case = json!({"count_threads": n_count, "stop_failpoint": stop_failpoint});
    let mut o = DumpOpts::default();
    for &t in &ts {
        o.app_memory.push(((p.threads[t].page + OFF_APPWORD) as usize, 8));
    }
    let mut fp = minidump_writer::FailSpotName::testing_client();
    if stop_failpoint {
        fp.set_enabled(minidump_writer::FailSpotName::StopProcess, true);
    }
    let r = dump_mem(p.pid, &o);
    drop(fp);
    let mut fails = Vec::new();
    let bytes = match r {
        DumpResult::Ok(b) => b,
        other => {
            fails.push(("dump-failed".into(), format!("{other:?}")));
            return (case, fails);
        }
    };
    let d = Dump::parse(&bytes);
    for &t in &ts {
        let tid = p.threads[t].tid as u32;
        let Some(th) = d.threads.iter().find(|x| x.tid == tid) else {
            fails.push(("thread-missing".into(), format!("busy thread {tid} not listed")));
            continue;
        };
        let Some(cb) = d.loc_bytes(&bytes, &th.context) else { continue };
        let r12 = off::u64_at(cb, off::R8 + 32);
        let rsp = off::u64_at(cb, off::RSP);
        let stack = d.loc_bytes(&bytes, &th.stack).unwrap_or(&[]);
        let slot = rsp + 8;
        let in_stack = if slot >= th.stack_start && slot + 8 <= th.stack_start + stack.len() as u64 {
            let o = (slot - th.stack_start) as usize;
            Some(u64::from_le_bytes(stack[o..o + 8].try_into().unwrap()))
        } else {
            None
        };
        let appaddr = p.threads[t].page + OFF_APPWORD;
        let in_app = d.memory.iter().find(|m| m.start == appaddr && m.loc.size == 8).and_then(|m| d.loc_bytes(&bytes, &m.loc)).map(|b| u64::from_le_bytes(b.try_into().unwrap()));
        match (in_stack, in_app) {
            (Some(s), Some(a)) => {
                let ok = (s == r12 || s + 1 == r12) && (a == r12 || a + 1 == r12) && s >= a;
                if !ok {
                    fails.push(("snapshot-not-a-single-instant".into(), format!("busy thread {tid}: register counter {r12}, captured stack slot {s}, captured app-memory word {a}: more than one step apart - the thread ran between the captures")));
                }
            }
            _ => fails.push(("counter-not-captured".into(), format!("busy thread {tid}: stack slot {in_stack:?} / app word {in_app:?} not found in the dump"))),
        }
    }
    (case, fails)
}

/// (c) syscall-order monitor on the intercepted libc trace of one dump.
fn run_order(n: usize, opt: usize) -> (Value, Vec<(String, String)>, usize) {
    use crate::envrun::{env_dump, EnvSpec};
    let mut p = Puppet::spawn();
    for i in 1..n {
        p.add_thread(if i % 2 == 0 { Kind::Spin } else { Kind::Block });
    }
    let region = p.pattern(2, "hole", "rw");
    p.quiesce();
    let mut o = DumpOpts::default();
    match opt {
        1 => o.app_memory.push((region as usize, 4096)),
        2 => {
            o.sanitize = true;
            o.size_limit = Some(1);
        }
        _ => {}
    }
    let case = json!({"order_monitor": {"n": n, "opt": opt}});
    let out = env_dump(&p, &EnvSpec { opts: o, ..Default::default() }, std::collections::HashMap::new(), None);
    let mut fails = Vec::new();
    if !matches!(out.result, DumpResult::Ok(_)) {
        fails.push(("dump-failed".into(), format!("{:?}", out.result)));
        return (case, fails, 0);
    }
    let idx = |pred: &dyn Fn(&str) -> bool| -> Vec<usize> { out.trace.iter().enumerate().filter(|(_, c)| pred(&c.key)).map(|(i, _)| i).collect() };
    let waits = idx(&|k| k.starts_with("wait:"));
    let detaches = idx(&|k| k.starts_with("detach:"));
    let memreads = idx(&|k| k.starts_with("vmread#") || k.starts_with("pread#") || k.starts_with("peek#"));
    let last_wait = waits.iter().max().copied().unwrap_or(0);
    let first_detach = detaches.iter().min().copied().unwrap_or(usize::MAX);
    for t in 0..n {
        let a = idx(&|k| k == format!("attach:t{t}"));
        let w = idx(&|k| k.starts_with(&format!("wait:t{t}#")));
        let r = idx(&|k| k.starts_with(&format!("regs:t{t}#")));
        if a.len() != 1 {
            fails.push(("order/attach-count".into(), format!("thread t{t} attached {} times", a.len())));
            continue;
        }
        if w.is_empty() || w[0] < a[0] {
            fails.push(("order/wait-before-attach".into(), format!("thread t{t}: no wait after its attach")));
        }
        if let Some(first_reg) = r.first() {
            if w.first().map(|w0| first_reg < w0).unwrap_or(true) {
                fails.push(("order/registers-before-stop".into(), format!("thread t{t}: registers read (call {first_reg}) before the thread was seen stopped")));
            }
        }
        if r.iter().any(|i| *i > first_detach) {
            fails.push(("order/registers-after-detach".into(), format!("thread t{t}: registers read after the first detach")));
        }
    }
    for m in &memreads {
        if *m < last_wait {
            fails.push(("order/memory-read-before-all-threads-stopped".into(), format!("target memory read (call {m}: {}) before the last thread was seen stopped (call {last_wait})", out.trace[*m].key)));
            break;
        }
        if *m > first_detach {
            fails.push(("order/memory-read-after-resume".into(), format!("target memory read (call {m}: {}) after the first detach (call {first_detach})", out.trace[*m].key)));
            break;
        }
    }
    (case, fails, memreads.len())
}

/// (e) every subset of threads exits between enumeration and attach (StopProcess fail point on, so
/// that the threads can run at all).
fn run_exits(subset: u32, at: usize) -> (Value, Vec<(String, String)>) {
    use crate::envrun::{env_dump, EnvSpec};
    let nspin = 4usize;
    let mut p = Puppet::spawn();
    p.unpin();
    for _ in 0..nspin {
        p.add_thread(Kind::Spin);
    }
    p.quiesce();
    let case = json!({"exit_subset": subset, "placement": at});
    let pid = p.pid;
    // a victim whose thread index is below the placement is already attached (ptrace-stopped): it
    // cannot run, so its release takes effect only after the dump; it must then simply be listed
    let victims: Vec<(u64, i32)> = (0..nspin).filter(|i| subset & (1 << i) != 0 && i + 1 >= at).map(|i| (p.threads[i].page + OFF_RELEASE, p.threads[i].tid)).collect();
    let victims2 = victims.clone();
    let mem = std::fs::OpenOptions::new().write(true).open(format!("/proc/{pid}/mem")).expect("mem");
    let cb: crate::env::Callback = Box::new(move |_k| {
        use std::os::unix::fs::FileExt;
        for (addr, _) in &victims2 {
            let _ = mem.write_all_at(&1u64.to_le_bytes(), *addr);
        }
        // wait until they are gone
        let dl = std::time::Instant::now() + std::time::Duration::from_secs(5);
        for (_, tid) in &victims2 {
            while std::path::Path::new(&format!("/proc/{pid}/task/{tid}")).exists() && std::time::Instant::now() < dl {
                std::thread::sleep(std::time::Duration::from_micros(200));
            }
        }
    });
    let mut before: std::collections::HashMap<String, crate::env::Callback> = std::collections::HashMap::new();
    before.insert(format!("attach:t{at}"), cb);
    let out = env_dump(&p, &EnvSpec { failpoints: 1, ..Default::default() }, before, None);
    let mut fails = Vec::new();
    let bytes = match &out.result {
        DumpResult::Ok(b) => b.clone(),
        other => {
            fails.push(("exits/dump-failed".into(), format!("{other:?}")));
            return (case, fails);
        }
    };
    let d = Dump::parse(&bytes);
    let soft = d.raw_bytes(&bytes, ST_MOZ_SOFT_ERRORS).map(|b| String::from_utf8_lossy(b).into_owned()).unwrap_or_default();
    let gone: Vec<i32> = victims.iter().map(|v| v.1).collect();
    for i in 0..nspin {
        let tid = p.threads[i].tid;
        let n = d.threads.iter().filter(|t| t.tid == tid as u32).count();
        if gone.contains(&tid) {
            // position in the enumeration order relative to the placement decides whether it was attached before it exited
            if n > 1 {
                fails.push(("exits/duplicated".into(), format!("exited thread {tid} listed {n} times")));
            }
            if n == 0 && !soft.contains(&tid.to_string()) {
                fails.push(("exits/omitted-without-report".into(), format!("thread {tid} exited before it could be attached and is neither listed nor reported")));
            }
            if n == 1 {
                let t = d.threads.iter().find(|t| t.tid == tid as u32).unwrap();
                if t.context.size as usize != off::SIZE {
                    fails.push(("exits/listed-without-context".into(), format!("exited thread {tid} is listed without a valid context")));
                }
            }
        } else if n != 1 {
            fails.push(("exits/survivor-not-listed-once".into(), format!("thread {tid} stayed alive but is listed {n} times")));
        } else {
            // a survivor must carry its own registers (not those of an exited neighbour)
            let t = d.threads.iter().find(|t| t.tid == tid as u32).unwrap();
            if let Some(cb) = d.loc_bytes(&bytes, &t.context) {
                let rip = off::u64_at(cb, off::RIP);
                let page = p.threads[i].page;
                if !(rip >= page && rip < page + 4096) {
                    fails.push(("exits/survivor-has-foreign-state".into(), format!("thread {tid}: rip {rip:#x} is not in its own code page {page:#x}")));
                }
            }
        }
    }
    (case, fails)
}

pub fn run(ctx: &Ctx, rep: &mut Report) {
    rep.rule = "(a) thread counts {1,2,3,8,21,64}(quick)/1..64 selection x spin/block mixes x 0..2 null-stack-pointer threads; (b) one thread per register file: base + every single deviation over 34 register dimensions (16 GPR, 16 XMM, mxcsr, x87 cw) x boundary values for spin threads, preserved registers for block threads; (d) 1..3 busy counter threads with and without the StopProcess fail point; (c) syscall-order monitor on 9 traced dumps; (e) all 16 exit subsets of 4 spin threads at 2 placements. nontrivial = register files with a deviation + completeness shapes with skipped threads + counter runs".into();
    rep.assume("a ptrace-stopped thread does not execute (kernel guarantee); cs/ss/ds/es/fs/gs selectors of a 64-bit Linux user thread are 0x33/0x2b/0/0/0/0");
    if let Some(case) = &ctx.replay {
        if let Some(o) = case.get("order_monitor") {
            let (c, fails, _) = run_order(o["n"].as_u64().unwrap_or(3) as usize, o["opt"].as_u64().unwrap_or(0) as usize);
            for (k, m) in fails {
                rep.violation(&k, &m, c.clone());
            }
        } else if case.get("exit_subset").is_some() {
            let (c, fails) = run_exits(case["exit_subset"].as_u64().unwrap_or(0) as u32, case["placement"].as_u64().unwrap_or(1) as usize);
            for (k, m) in fails {
                rep.violation(&k, &m, c.clone());
            }
        } else if case.get("count_threads").is_some() {
            let (c, fails) = run_count(case["count_threads"].as_u64().unwrap_or(1) as usize, case["stop_failpoint"].as_bool().unwrap_or(false));
            for (k, m) in fails {
                rep.violation(&k, &m, c.clone());
            }
        } else if let Some(fs) = case.get("files").and_then(|f| f.as_array()) {
            let files: Vec<RegFile> = fs
                .iter()
                .map(|f| RegFile {
                    kind: match f[0].as_str() {
                        Some("spin") => Kind::Spin,
                        Some("count") => Kind::Count,
                        _ => Kind::Block,
                    },
                    dev: f[1].as_array().map(|d| (d[0].as_u64().unwrap_or(0) as usize, d[1].as_u64().unwrap_or(0) as usize)),
                })
                .collect();
            let (c, fails, _) = run_regfiles_opt(&files, case["null_sp_threads"].as_u64().unwrap_or(0) as usize, case.get("optmode").and_then(|o| o.as_u64()).unwrap_or(0) as u8);
            for (k, m) in fails {
                rep.violation(&k, &m, c.clone());
            }
        }
        rep.evaluations += 1;
        return;
    }
    T0.with(|_| ());
    // work items
    let mut items: Vec<(Vec<RegFile>, usize, u8)> = Vec::new();
    // (b) all single deviations for spin threads, ~48 per puppet
    let mut devs: Vec<RegFile> = vec![RegFile { kind: Kind::Spin, dev: None }, RegFile { kind: Kind::Block, dev: None }];
    for dim in 0..34usize {
        let nvals = match dim {
            d if d == RSP => RSP_VALUES.len(),
            d if d < 16 => GPR_VALUES.len(),
            d if d < 32 => XMM_VALUES.len(),
            32 => MXCSR_VALUES.len(),
            _ => CW_VALUES.len(),
        };
        for vi in 0..nvals {
            devs.push(RegFile { kind: Kind::Spin, dev: Some((dim, vi)) });
            // block threads: deviations only on the registers the ABI preserves and that we load
            if [RBX, RBP, R8, R8 + 1, R8 + 4, R8 + 5, R8 + 6, R8 + 7].contains(&dim) || dim >= 16 {
                if ctx.tier.is_thorough() || vi < 2 {
                    devs.push(RegFile { kind: Kind::Block, dev: Some((dim, vi)) });
                }
            }
        }
    }
    for (ci, chunk) in devs.chunks(40).enumerate() {
        // each batch of register files also runs under one of the option modes that touch the
        // thread-list writer's position logic (40 threads: positions below and above 20)
        items.push((chunk.to_vec(), 0, 0));
        items.push((chunk.to_vec(), 0, 1 + (ci % 5) as u8));
        if ctx.tier.is_thorough() {
            for k in 1..5 {
                items.push((chunk.to_vec(), 0, 1 + ((ci + k) % 5) as u8));
            }
        }
    }
    // (a) completeness shapes
    let ns: Vec<usize> = if ctx.tier.is_thorough() { vec![1, 2, 3, 4, 5, 8, 13, 20, 21, 22, 32, 48, 63, 64] } else { vec![1, 2, 3, 8, 21, 64] };
    for &n in &ns {
        for mix in 0..3 {
            let files: Vec<RegFile> = (1..n).map(|i| RegFile { kind: match mix { 0 => Kind::Block, 1 => Kind::Spin, _ => if i % 2 == 0 { Kind::Spin } else { Kind::Block } }, dev: None }).collect();
            for nulls in [0usize, 1, 2] {
                if n + nulls > 64 || (nulls > 0 && mix == 1 && !ctx.tier.is_thorough()) {
                    continue;
                }
                items.push((files.clone(), nulls, 0));
                if n >= 21 {
                    items.push((files.clone(), nulls, 1));
                    items.push((files.clone(), nulls, 3));
                }
                if n <= 8 && mix == 2 {
                    items.push((files.clone(), nulls, 4));
                    items.push((files.clone(), nulls, 5));
                }
                if nulls > 0 && n <= 21 {
                    items.push((files.clone(), nulls, 6));
                }
                if nulls == 0 && (n == 3 || n == 8) && mix != 1 {
                    items.push((files.clone(), nulls, 7));
                }
                if nulls == 0 && (n == 2 || n == 3 || n == 8) {
                    items.push((files.clone(), nulls, 8));
                }
            }
        }
    }
    let results = par_map(&items, |_, (files, nulls, om)| run_regfiles_opt(files, *nulls, *om));
    let mut contexts_checked = 0;
    for ((files, nulls, _), (case, fails, checked)) in items.iter().zip(results) {
        rep.evaluations += 1;
        contexts_checked += checked;
        rep.nontrivial += files.iter().filter(|f| f.dev.is_some()).count() as u64 + (*nulls > 0) as u64;
        rep.outcome(mdv_core::fnv(format!("{}/{}/{}", files.len(), nulls, fails.len()).as_bytes()));
        if rep.samples.len() < 2 && files.len() < 6 && *nulls > 0 {
            rep.sample(case.clone());
        }
        for (k, m) in fails {
            if k == "MACHINERY" {
                rep.machinery(m);
            } else {
                rep.violation(&k, &m, case.clone());
            }
        }
    }
    // (d) sequential: the fail point is process-global
    for n in 1..=3usize {
        for fp in [true, false] {
            let reps = if ctx.tier.is_thorough() { 20 } else { 5 };
            for _ in 0..reps {
                let (case, fails) = run_count(n, fp);
                rep.evaluations += 1;
                rep.nontrivial += 1;
                if rep.samples.len() < 3 {
                    rep.sample(case.clone());
                }
                for (k, m) in fails {
                    rep.violation(&k, &m, case.clone());
                }
            }
        }
    }
    eprintln!("[c04] a+b+d done at {:.1}s", T0.with(|t| t.elapsed().as_secs_f64()));
    // (c) order monitor
    let mut mem_reads = 0;
    let order_items: Vec<(usize, usize)> = [1usize, 3, 8].iter().flat_map(|n| (0..3).map(move |o| (*n, o))).collect();
    for (case, fails, m) in par_map(&order_items, |_, (n, o)| run_order(*n, *o)) {
        rep.evaluations += 1;
        mem_reads += m;
        for (k, msg) in fails {
            rep.violation(&k, &msg, case.clone());
        }
    }
    rep.set("order_monitor", json!({"dumps": order_items.len(), "target_memory_reads_checked": mem_reads}));
    eprintln!("[c04] c done at {:.1}s", T0.with(|t| t.elapsed().as_secs_f64()));
    // (e) exit subsets: sequential (fail point is process-global)
    let mut exit_runs = 0;
    for at in [1usize, 3] {
        for subset in 0u32..16 {
            if !ctx.tier.is_thorough() && at == 3 && subset.count_ones() > 2 {
                continue;
            }
            let (case, fails) = run_exits(subset, at);
            rep.evaluations += 1;
            exit_runs += 1;
            if subset != 0 {
                rep.nontrivial += 1;
            }
            for (k, msg) in fails {
                rep.violation(&k, &msg, case.clone());
            }
        }
    }
    eprintln!("[c04] e done at {:.1}s", T0.with(|t| t.elapsed().as_secs_f64()));
    rep.set("exit_subset_runs", json!(exit_runs));
    rep.set("thread_contexts_compared", json!(contexts_checked));
    rep.set("register_files_with_one_deviation", json!(devs.len()));
    rep.states = rep.evaluations;
    rep.transitions = contexts_checked;
    rep.traces = rep.evaluations;
    rep.exhaustive = true;
}
