//! C05 end-to-end part: exception record / blamed thread's list entry on real dumps.
//! blamed thread in {main, another listed thread, a tid that is not a thread of the target} x
//! crash context {on, off} x register files x N in {1, 3}.

use crate::checks::c01::env_of;
use crate::checks::c05::{expected_fields, vals_for};
use crate::dump::{dump_mem, CrashSpec, DumpOpts, DumpResult, DIM_RIP, DIM_RSP};
use crate::shapes::{build, par_map, Shape};
use crate::Ctx;
use mdv_core::mdparse::{ctx as off, Dump};
use mdv_core::{json, Report, Value};

const DUMP_REQUESTED: u32 = 0xFFFF_FFFF;

#[derive(Clone, Debug)]
struct Case {
    n: usize,
    blamed: usize, // 0 main, 1 another listed thread, 2 not a thread of the target (the checker itself)
    ctx: bool,
    regfile: usize,
    /// a size limit is set (far above any dump size: it never takes effect)
    limit: bool,
}

fn devs_for(regfile: usize, stack_hi: u64, text: u64) -> Vec<(usize, u64)> {
    let mut d = vec![(DIM_RSP, stack_hi - 0x1800), (DIM_RIP, text + 0x40)];
    match regfile {
        1 => d.push((13, 0)),                       // rax = 0
        2 => d.push((18, 0xffff_ffff_ffff_ffff)),   // csgsfs all ones
        3 => d.extend([(17, 0xffff_ffff_0000_0246), (25, 0xffff)]), // eflags high bits, ftw
        4 => d.extend([(27, u64::MAX), (28, 1 << 63)]),            // x87 ip/dp
        5 => d[0].1 = 0x10,                         // rsp unmapped
        6 => d[1].1 = 0,                            // rip 0
        7 => d.extend((63..127).map(|i| (i, 0xffff_ffff))), // all xmm ones
        _ => {}
    }
    d
}


/// Judge one dump against what the caller supplied.
pub fn judge(bytes: &[u8], blamed_tid: i32, listed_expected: bool, ctx: Option<(u32, i32, u64, Vec<(usize, u64)>)>) -> Vec<(String, String)> {
    let mut fails: Vec<(String, String)> = Vec::new();
    let c_ctx = ctx.is_some();
    let (signo, code, addr, devs) = ctx.unwrap_or((0, 0, 0, vec![]));
    let bytes = bytes.to_vec();
    let d = Dump::parse(&bytes);
    let Some(x) = d.exception.clone() else {
        fails.push(("no-exception-stream".into(), "the dump has no exception stream".into()));
        return fails;
    };
    if x.thread_id != blamed_tid as u32 {
        fails.push(("wrong-blamed-thread".into(), format!("exception record names thread {} but {} was blamed", x.thread_id, blamed_tid)));
    }
    let entry = d.threads.iter().find(|t| t.tid == blamed_tid as u32).cloned();
    if listed_expected && entry.is_none() {
        fails.push(("blamed-thread-not-listed".into(), format!("blamed thread {blamed_tid} is not in the thread list")));
    }
    if c_ctx {
        if x.code != signo {
            fails.push(("signal-number-lost".into(), format!("exception code {:#x} != supplied signal number {signo}", x.code)));
        }
        if x.flags != code as u32 {
            fails.push(("signal-code-lost".into(), format!("exception flags {:#x} != supplied signal code {code:#x}", x.flags)));
        }
        if x.address != addr {
            fails.push(("fault-address-lost".into(), format!("exception address {:#x} != supplied fault address {addr:#x}", x.address)));
        }
        let want = expected_fields(&vals_for(&devs));
        let check_ctx = |loc: &mdv_core::mdparse::Loc, what: &str, fails: &mut Vec<(String, String)>| {
            match d.loc_bytes(&bytes, loc) {
                Some(cb) if cb.len() == off::SIZE => {
                    for (o, w, name) in &want {
                        if cb[*o..*o + w.len()] != w[..] {
                            fails.push((format!("{what}/field/{name}"), format!("{what}: register {name} differs from the supplied crash context")));
                            break;
                        }
                    }
                }
                _ => fails.push((format!("{what}/bad-location"), format!("{what}: location ({:#x}, {}) is not a CPU context", loc.rva, loc.size))),
            }
        };
        if let Some(t) = &entry {
            if x.context.rva != t.context.rva || x.context.size != t.context.size {
                fails.push(("exception-context-not-thread-context".into(), format!("exception context ({:#x},{}) is not the blamed thread's list-entry context ({:#x},{})", x.context.rva, x.context.size, t.context.rva, t.context.size)));
            }
            check_ctx(&t.context, "blamed thread's context", &mut fails);
            check_ctx(&x.context, "exception context", &mut fails);
        } else if x.context.size != 0 {
            // absent blamed thread: an empty location is acceptable, a non-empty one must be the supplied context
            check_ctx(&x.context, "exception context (blamed thread absent)", &mut fails);
        }
    } else {
        if x.code != DUMP_REQUESTED {
            fails.push(("not-dump-requested".into(), format!("without a crash context the exception code is {:#x}, not 'dump requested'", x.code)));
        }
        if let Some(t) = &entry {
            if x.context.rva != t.context.rva || x.context.size != t.context.size {
                fails.push(("exception-context-not-thread-context".into(), "exception context is not the blamed thread's captured context".into()));
            }
            if let Some(cb) = d.loc_bytes(&bytes, &t.context) {
                if cb.len() == off::SIZE {
                    let rip = off::u64_at(cb, off::RIP);
                    if x.address != rip {
                        fails.push(("address-not-instruction-pointer".into(), format!("exception address {:#x} != blamed thread's captured rip {rip:#x}", x.address)));
                    }
                }
            }
        }
    }
    fails
}

/// Without a crash context the record carries the blamed thread's CAPTURED context: compare it with the
/// registers the (parked) thread really has — stack pointer and callee-saved registers, which a thread
/// that spins in the puppet's loop or sits in a system call cannot change.
pub fn judge_truth(bytes: &[u8], blamed_tid: i32) -> Vec<(String, String)> {
    let mut fails = Vec::new();
    let d = Dump::parse(bytes);
    let Some(x) = d.exception.clone() else { return fails };
    let Some(cb) = d.loc_bytes(bytes, &x.context) else { return fails };
    if cb.len() != off::SIZE {
        return fails;
    }
    let Some(now) = crate::checks::universal::regs_now(blamed_tid) else { return fails };
    let pairs: [(&str, usize, u64); 7] = [("rsp", off::RSP, now.rsp), ("rbp", off::RBP, now.rbp), ("rbx", off::RBX, now.rbx), ("r12", off::R12, now.r12), ("r13", 224, now.r13), ("r14", 232, now.r14), ("r15", 240, now.r15)];
    for (name, o, v) in pairs {
        let got = off::u64_at(cb, o);
        if got != v {
            fails.push((format!("captured-context-not-the-blamed-threads/{name}"), format!("the exception context's {name} is {got:#x}; the blamed thread {blamed_tid} (parked) has {v:#x}")));
            break;
        }
    }
    fails
}

fn run_case(c: &Case) -> (Value, Vec<(String, String)>, bool) {
    let case = json!({"n": c.n, "blamed": c.blamed, "ctx": c.ctx, "regfile": c.regfile, "limit": c.limit});
    let mut b = build(&Shape::threads(c.n));
    let env = env_of(&mut b);
    let blamed_tid: i32 = match c.blamed {
        0 => b.p.pid,
        1 => b.p.threads.first().map(|t| t.tid).unwrap_or(b.p.pid),
        _ => std::process::id() as i32,
    };
    let listed_expected = c.blamed == 0 || (c.blamed == 1);
    let devs = devs_for(c.regfile, env.main_stack.1, env.text.0);
    let mut o = DumpOpts { blamed: Some(blamed_tid), size_limit: if c.limit { Some(u64::MAX) } else { None }, ..Default::default() };
    let (signo, code, addr) = (11u32, 0x12345i32, 0x7eee_dead_b000u64);
    if c.ctx {
        o.crash = Some(CrashSpec { tid: blamed_tid, signo, code, addr, devs: devs.clone() });
    }
    let mut fails = Vec::new();
    let bytes = match dump_mem(b.p.pid, &o) {
        DumpResult::Ok(x) => x,
        DumpResult::Err(e) => {
            // a dump may fail (C02 allows Err); nothing to attribute then
            return (json!({"case": case, "dump_error": e}), fails, false);
        }
        DumpResult::Panic(p) => {
            fails.push(("panic".into(), p));
            return (case, fails, false);
        }
    };
    fails.extend(judge(&bytes, blamed_tid, listed_expected, if c.ctx { Some((signo, code, addr, devs.clone())) } else { None }));
    if !c.ctx && c.blamed == 1 {
        b.p.quiesce();
        fails.extend(judge_truth(&bytes, blamed_tid));
    }
    (case, fails, true)
}

/// One writer, two requests with DIFFERENT crash contexts (set_crash_context between them): the second
/// dump must carry the second context everywhere.
fn run_reconfigured(blamed_other: bool) -> (Value, Vec<(String, String)>) {
    let case = json!({"reconfigured": true, "blamed_other": blamed_other});
    let mut b = build(&Shape::threads(3));
    let env = env_of(&mut b);
    let blamed_tid = if blamed_other { b.p.threads[0].tid } else { b.p.pid };
    let devs_a = devs_for(1, env.main_stack.1, env.text.0);
    let devs_b = devs_for(7, env.main_stack.1, env.text.0);
    let o = DumpOpts { blamed: Some(blamed_tid), crash: Some(CrashSpec { tid: blamed_tid, signo: 11, code: 1, addr: 0x1000, devs: devs_a }), ..Default::default() };
    let mut w = crate::dump::make_writer(b.p.pid, &o);
    let mut fails = Vec::new();
    let mut c1 = std::io::Cursor::new(Vec::new());
    if !matches!(crate::dump::dump_with(&mut w, &mut c1), DumpResult::Ok(_)) {
        return (case, fails);
    }
    b.p.quiesce();
    // second request: another signal, another register file
    let mut cc = crate::checks::c05::make_context(&vals_for(&devs_b));
    cc.inner.siginfo.ssi_signo = 7;
    cc.inner.siginfo.ssi_code = 0x777;
    cc.inner.siginfo.ssi_addr = 0x7000_0000_beef;
    cc.inner.pid = b.p.pid;
    cc.inner.tid = blamed_tid;
    w.set_crash_context(cc);
    let mut c2 = std::io::Cursor::new(Vec::new());
    match crate::dump::dump_with(&mut w, &mut c2) {
        DumpResult::Ok(bytes) => {
            for (k, m) in judge(&bytes, blamed_tid, true, Some((7, 0x777, 0x7000_0000_beef, devs_b))) {
                fails.push((format!("second-request/{k}"), format!("second dump after set_crash_context(): {m}")));
            }
        }
        other => fails.push(("second-request/failed".into(), format!("{other:?}"))),
    }
    (case, fails)
}

/// The blamed thread is NOT the first entry of the kernel's thread list and a thread that precedes it
/// is dropped during suspension (attach refused; or a null-stack-pointer helper that is skipped):
/// everything the record says about the blamed thread must still be about the blamed thread.
/// how: 1 = attach(t1) -> EPERM, 2 = attach(main) -> EPERM, 3 = a null-sp spin thread created first
fn run_dropped_before(how: u8, with_ctx: bool, regfile: usize) -> (Value, Vec<(String, String)>, bool) {
    use crate::puppet::{Kind, Puppet, RSP};
    let case = json!({"dropped_before": how, "ctx": with_ctx, "regfile": regfile});
    let mut p = Puppet::spawn();
    if how == 3 {
        let t = p.mkthread(Kind::Spin);
        p.set_gpr(t, RSP, 0);
        p.start(t);
    }
    p.add_thread(Kind::Block);
    p.add_thread(Kind::Block);
    p.add_thread(Kind::Block);
    p.quiesce();
    let mut b = crate::shapes::Built { p, pattern_addrs: vec![], file_addrs: vec![] };
    let env = env_of(&mut b);
    let blamed_tid = b.p.threads.last().unwrap().tid;
    let devs = devs_for(regfile, env.main_stack.1, env.text.0);
    let mut o = DumpOpts { blamed: Some(blamed_tid), ..Default::default() };
    let (signo, code, addr) = (7u32, -6i32 /* SI_TKILL: codes of software-sent signals are negative */, 0x7eee_beef_c000u64);
    if with_ctx {
        o.crash = Some(CrashSpec { tid: blamed_tid, signo, code, addr, devs: devs.clone() });
    }
    let plan: Vec<(String, crate::env::Alt)> = match how {
        1 => vec![("attach:t1".into(), crate::env::Alt::Errno(libc::EPERM))],
        2 => vec![("attach:t0".into(), crate::env::Alt::Errno(libc::EPERM))],
        _ => vec![],
    };
    let out = crate::envrun::env_dump(&b.p, &crate::envrun::EnvSpec { opts: o, plan, ..Default::default() }, std::collections::HashMap::new(), None);
    let mut fails = Vec::new();
    match out.result {
        DumpResult::Ok(bytes) => {
            fails.extend(judge(&bytes, blamed_tid, true, if with_ctx { Some((signo, code, addr, devs)) } else { None }));
            // and the entries of the OTHER listed threads must not carry the supplied context
            if with_ctx {
                let d = Dump::parse(&bytes);
                let want = expected_fields(&vals_for(&devs_for(regfile, env.main_stack.1, env.text.0)));
                for t in d.threads.iter().filter(|t| t.tid != blamed_tid as u32) {
                    if let Some(cb) = d.loc_bytes(&bytes, &t.context) {
                        if cb.len() == off::SIZE && want.iter().all(|(o, w, _)| cb[*o..*o + w.len()] == w[..]) {
                            fails.push(("crash-context-on-wrong-thread".into(), format!("thread {} (not the blamed thread {blamed_tid}) carries the supplied crash context", t.tid)));
                        }
                    }
                }
            }
            (case, fails, true)
        }
        DumpResult::Err(e) => (json!({"case": case, "dump_error": e}), fails, false),
        DumpResult::Panic(m) => {
            fails.push(("panic".into(), m));
            (case, fails, false)
        }
    }
}

pub fn run(ctx: &Ctx, rep: &mut Report) {
    let mut cases = Vec::new();
    for n in [1usize, 3] {
        for blamed in 0..3 {
            if n == 1 && blamed == 1 {
                continue;
            }
            for c in [true, false] {
                let regs: Vec<usize> = if c { if ctx.tier.is_thorough() { (0..8).collect() } else { vec![0, 2, 3, 5, 7] } } else { vec![0] };
                for regfile in regs {
                    cases.push(Case { n, blamed, ctx: c, regfile, limit: false });
                    if regfile == 0 {
                        cases.push(Case { n, blamed, ctx: c, regfile, limit: true });
                    }
                }
            }
        }
    }
    let results = par_map(&cases, |_, c| run_case(c));
    let mut ok = 0;
    for (case, fails, succeeded) in results {
        rep.evaluations += 1;
        if succeeded {
            ok += 1;
            rep.nontrivial += 1;
        }
        if rep.samples.len() < 4 && case.get("dump_error").is_none() {
            rep.sample(case.clone());
        }
        for (k, m) in fails {
            rep.violation(&format!("dump/{k}"), &m, case.clone());
        }
    }
    for blamed_other in [false, true] {
        let (case, fails) = run_reconfigured(blamed_other);
        rep.evaluations += 1;
        rep.nontrivial += 1;
        for (k, m) in fails {
            rep.violation(&format!("dump/{k}"), &m, case.clone());
        }
    }
    let mut dropped: Vec<(u8, bool, usize)> = Vec::new();
    for how in 1..=3u8 {
        for with_ctx in [true, false] {
            for regfile in if with_ctx && ctx.tier.is_thorough() { vec![0usize, 1, 7] } else { vec![0usize] } {
                dropped.push((how, with_ctx, regfile));
            }
        }
    }
    let dres = par_map(&dropped, |_, (h, c, r)| run_dropped_before(*h, *c, *r));
    for (case, fails, succeeded) in dres {
        rep.evaluations += 1;
        if succeeded {
            rep.nontrivial += 1;
        }
        for (k, m) in fails {
            rep.violation(&format!("dump/dropped-before/{k}"), &m, case.clone());
        }
    }
    rep.set("end_to_end", json!({"cases": cases.len(), "dumps_succeeded": ok, "reconfigured_writer_histories": 2, "blamed_thread_behind_a_dropped_thread": dropped.len()}));
}

pub fn replay(case: &Value, rep: &mut Report) {
    if let Some(how) = case.get("dropped_before").and_then(|h| h.as_u64()) {
        let (c, fails, _) = run_dropped_before(how as u8, case["ctx"].as_bool().unwrap_or(false), case["regfile"].as_u64().unwrap_or(0) as usize);
        rep.evaluations += 1;
        for (k, m) in fails {
            rep.violation(&format!("dump/dropped-before/{k}"), &m, c.clone());
        }
        return;
    }
    if case.get("reconfigured").is_some() {
        let (c, fails) = run_reconfigured(case["blamed_other"].as_bool().unwrap_or(false));
        rep.evaluations += 1;
        for (k, m) in fails {
            rep.violation(&format!("dump/{k}"), &m, c.clone());
        }
        return;
    }
    let g = |k: &str| case.get(k).and_then(|v| v.as_u64()).unwrap_or(0) as usize;
    let c = Case { n: g("n").max(1), blamed: g("blamed"), ctx: case.get("ctx").and_then(|v| v.as_bool()).unwrap_or(false), regfile: g("regfile"), limit: case.get("limit").and_then(|v| v.as_bool()).unwrap_or(false) };
    let (case, fails, _) = run_case(&c);
    rep.evaluations += 1;
    for (k, m) in fails {
        rep.violation(&format!("dump/{k}"), &m, case.clone());
    }
}
