//! C17 — all remote-memory read strategies return the target's bytes.
//!
//! LAT: start alignment 0..7 x every length (1..4112 thorough; 1..300 + powers quick) x placement
//! {region start, interior, ending exactly at the region end, crossing the end by 1..8 bytes} x
//! region tail {unmapped page, PROT_NONE page} x the three explicit strategies + a fresh
//! auto-probing reader. Oracle: address-derived pattern.

use crate::checks::guarded;
use crate::puppet::Puppet;
use crate::shapes::par_map;
use crate::Ctx;
use mdv_core::{json, pattern_byte, Report, Value};
use minidump_writer::mem_reader::MemReader;

const PAGES: u64 = 20;
const PAGE: u64 = 4096;

#[derive(Clone, Copy, Debug, PartialEq, Eq)]
enum Strat {
    Vmem,
    File,
    Ptrace,
    Auto,
}
const STRATS: [Strat; 4] = [Strat::Vmem, Strat::File, Strat::Ptrace, Strat::Auto];

impl Strat {
    fn name(self) -> &'static str {
        match self {
            Strat::Vmem => "process_vm_readv",
            Strat::File => "proc-mem-file",
            Strat::Ptrace => "ptrace-peek",
            Strat::Auto => "auto-probe",
        }
    }
}

/// Spans of the region (offset, length) that the checker overwrites with 0xff bytes: words that read as -1,
/// the value the word-by-word strategy's system call also uses to signal an error.
const FF_SPANS: [(u64, u64); 4] = [(8, 24), (5 * PAGE + 1000 + 13, 40), (PAGES * PAGE - 48, 16), (PAGES * PAGE - 16, 16)];

thread_local! {
    /// this worker's region has an unmapped hole in front of it (instead of the inaccessible guard page)
    static FRONT_HOLE: std::cell::Cell<bool> = const { std::cell::Cell::new(false) };
}

fn true_byte(region: u64, tail_protnone: bool, a: u64) -> Option<u8> {
    let end = region + PAGES * PAGE;
    if a >= region && a < end {
        if FF_SPANS.iter().any(|(o, l)| a >= region + o && a < region + o + l) {
            return Some(0xff);
        }
        Some(pattern_byte(a))
    } else if (tail_protnone && a >= end && a < end + PAGE) || (a >= region - PAGE && a < region && !FRONT_HOLE.with(|f| f.get())) {
        Some(0) // the PROT_NONE pages (guard page in front of every region; the tail page) were never written: their true content is zero
    } else {
        None
    }
}

fn judge(region: u64, protnone: bool, start: u64, len: usize, res: &Result<Vec<u8>, String>) -> Option<(String, String)> {
    let end = region + PAGES * PAGE;
    let fully_readable = start >= region && start + len as u64 <= end;
    match res {
        Err(e) if e.starts_with("panic") => Some(("panic".into(), e.clone())),
        Err(e) => {
            if fully_readable {
                Some(("readable-range-failed".into(), format!("range [{start:#x}, +{len}) is entirely readable (region ends at {end:#x}) but the read failed: {e}")))
            } else {
                None
            }
        }
        Ok(got) => {
            if got.len() > len {
                return Some(("more-bytes-than-asked".into(), format!("{} bytes returned for a {len}-byte read", got.len())));
            }
            for (i, b) in got.iter().enumerate() {
                match true_byte(region, protnone, start + i as u64) {
                    Some(t) if t == *b => {}
                    Some(t) => return Some(("wrong-byte".into(), format!("byte {i} of [{start:#x}, +{len}) is {b:#x}, the target has {t:#x}"))),
                    None => return Some(("fabricated-byte".into(), format!("byte {i} of [{start:#x}, +{len}) lies in unmapped memory but a value ({b:#x}) was returned"))),
                }
            }
            if fully_readable && got.len() != len {
                return Some(("short-read-of-readable-range".into(), format!("only {} of {len} readable bytes returned", got.len())));
            }
            None
        }
    }
}

fn read_with(pid: i32, s: Strat, start: u64, len: usize) -> Result<Vec<u8>, String> {
    let r = guarded(|| {
        let mut rd = match s {
            Strat::Vmem => MemReader::for_virtual_mem(pid),
            Strat::File => MemReader::for_file(pid).map_err(|e| format!("open mem: {e}"))?,
            Strat::Ptrace => MemReader::for_ptrace(pid),
            Strat::Auto => MemReader::new(pid),
        };
        let mut buf = vec![0xA5u8; len];
        match rd.read(start as usize, &mut buf) {
            Ok(n) => {
                buf.truncate(n);
                Ok(buf)
            }
            Err(e) => Err(format!("{e:?}")),
        }
    });
    match r {
        Ok(x) => x,
        Err(p) => Err(format!("panic: {p}")),
    }
}

#[derive(Clone, Debug)]
struct Chunk {
    /// the guard page in front of the region is unmapped, so that nothing in front of the region can be read
    front_hole: bool,
    protnone: bool,
    lens: Vec<usize>,
}

fn lens(thorough: bool) -> Vec<usize> {
    let mut v: Vec<usize> = if thorough { (1..=4112).collect() } else { (1..=700).collect() };
    v.extend([511, 512, 513, 1023, 1024, 1025, 4095, 4096, 4097, 4104, 4112, 8191, 8192, 8193, 32768, 65535, 65536]);
    v.sort();
    v.dedup();
    v
}

fn run_chunk(c: &Chunk) -> (u64, u64, Vec<(String, String, Value)>, Option<Value>, std::collections::BTreeSet<u64>) {
    let mut p = Puppet::spawn();
    let region = p.pattern(PAGES as usize, if c.protnone { "protnone" } else { "hole" }, "rw");
    for (o, l) in FF_SPANS {
        p.write(region + o, &vec![0xffu8; l as usize]);
    }
    FRONT_HOLE.with(|f| f.set(false));
    if c.front_hole {
        if p.cmd(&format!("unmap {:#x} 4096", region - PAGE)).is_err() {
            return (0, 0, vec![], None, Default::default());
        }
        FRONT_HOLE.with(|f| f.set(true));
    }
    p.quiesce();
    let pid = p.pid;
    // the ptrace strategy needs an attached, stopped tracee; the other two work either way
    let attached = unsafe {
        let r = libc::ptrace(libc::PTRACE_ATTACH, pid, 0, 0);
        if r == 0 {
            let mut st = 0;
            libc::waitpid(pid, &mut st, libc::__WALL);
        }
        r == 0
    };
    let end = region + PAGES * PAGE;
    let mut evals = 0u64;
    let mut nontrivial = 0u64;
    let mut fails: Vec<(String, String, Value)> = Vec::new();
    let mut sample = None;
    let mut outcomes = std::collections::BTreeSet::new();
    for &len in &c.lens {
        for a in 0..8u64 {
            let mut starts: Vec<(u64, &str)> = vec![(region + a, "at-region-start"), (region + 5 * PAGE + 1000 + a, "interior")];
            if (len as u64) <= PAGES * PAGE {
                starts.push((end - len as u64, "ends-at-region-end"));
            }
            // crossing the end by 1..8 bytes (alignment dimension folded into the crossing amount)
            if (len as u64) <= PAGES * PAGE {
                starts.push((end - len as u64 + a + 1, "crosses-end"));
            }
            // starting 1..8 bytes BEFORE the region, inside the inaccessible guard page in front of it
            starts.push((region - (a + 1), "starts-before-region"));
            for (start, place) in starts {
                if start < region && place != "starts-before-region" {
                    continue;
                }
                // only the dedicated placement crosses the end (by <= 8 bytes, i.e. into the tail page only)
                if place != "crosses-end" && start + len as u64 > end {
                    continue;
                }
                for s in STRATS {
                    if s == Strat::Ptrace && !attached {
                        continue;
                    }
                    if s == Strat::Ptrace && len > 4112 {
                        continue; // word-by-word: keep the long powers for the bulk strategies
                    }
                    evals += 1;
                    if place != "interior" {
                        nontrivial += 1;
                    }
                    let r = read_with(pid, s, start, len);
                    outcomes.insert((s as u64) << 8 | match &r { Ok(v) if v.len() == len => 0, Ok(_) => 1, Err(_) => 2 } << 4 | (place.len() as u64 & 0xf));
                    if let Some((k, m)) = judge(region, c.protnone, start, len, &r) {
                        let key = format!("{}/{k}/{place}", s.name());
                        if fails.len() < 30 && !fails.iter().any(|f| f.0 == key) {
                            fails.push((key, format!("{} ({place}, tail {}{}): {m}", s.name(), if c.protnone { "PROT_NONE" } else { "unmapped" }, if c.front_hole { ", unmapped hole in front" } else { "" }), json!({"front_hole": c.front_hole, "protnone": c.protnone, "offset_from_region": start as i64 - region as i64, "len": len, "strategy": s.name()})));
                        }
                    }
                    if sample.is_none() && place == "crosses-end" && len > 20 {
                        sample = Some(json!({"strategy": s.name(), "tail": if c.protnone { "PROT_NONE" } else { "unmapped" }, "offset_from_region": start as i64 - region as i64, "len": len, "placement": place}));
                    }
                }
            }
        }
    }
    if attached {
        unsafe {
            libc::ptrace(libc::PTRACE_DETACH, pid, 0, 0);
        }
    }
    (evals, nontrivial, fails, sample, outcomes)
}

/// The request alphabet of the reader-reuse histories: (offset from the region start, length).
fn reuse_alphabet() -> Vec<(i64, usize)> {
    let end = (PAGES * PAGE) as i64;
    vec![
        (5 * PAGE as i64 + 1000, 256), // interior
        (16, 256),                     // near the region start
        (end - 256, 256),              // ends exactly at the region end
        (end - 7, 64),                 // crosses the end after 7 readable bytes
        (end - 3000, 5000),            // crosses the end after 3000 readable bytes
        (end + 8, 32),                 // starts behind the end
        (-5, 24),                      // starts in the guard page in front of the region
        (3, 5000),                     // long, unaligned, fully readable
    ]
}

/// SEQ: ONE reader per strategy serves a whole history of requests (all ordered sequences of <= depth requests
/// from `reuse_alphabet`); every answer is judged like a fresh reader's, so state a failed or short
/// request leaves behind in the reader shows up in the next answer.
fn run_reuse(protnone: bool, depth: usize, only: Option<(Strat, Vec<(i64, usize)>)>) -> (u64, Vec<(String, String, Value)>, std::collections::BTreeSet<u64>) {
    let mut p = Puppet::spawn();
    let region = p.pattern(PAGES as usize, if protnone { "protnone" } else { "hole" }, "rw");
    for (o, l) in FF_SPANS {
        p.write(region + o, &vec![0xffu8; l as usize]);
    }
    p.quiesce();
    let pid = p.pid;
    let attached = unsafe {
        let r = libc::ptrace(libc::PTRACE_ATTACH, pid, 0, 0);
        if r == 0 {
            let mut st = 0;
            libc::waitpid(pid, &mut st, libc::__WALL);
        }
        r == 0
    };
    let alpha = reuse_alphabet();
    let mut hists: Vec<Vec<(i64, usize)>> = Vec::new();
    let mut strats: Vec<Strat> = STRATS.to_vec();
    if let Some((s, h)) = only {
        hists.push(h);
        strats = vec![s];
    } else {
        let mut level: Vec<Vec<(i64, usize)>> = vec![vec![]];
        for _ in 0..depth {
            let mut next = Vec::new();
            for h in &level {
                for a in &alpha {
                    let mut h2 = h.clone();
                    h2.push(*a);
                    next.push(h2);
                }
            }
            hists.extend(next.iter().filter(|h| h.len() >= 2).cloned());
            level = next;
        }
    }
    let mut evals = 0u64;
    let mut fails: Vec<(String, String, Value)> = Vec::new();
    let mut outcomes = std::collections::BTreeSet::new();
    for s in strats {
        if s == Strat::Ptrace && !attached {
            continue;
        }
        for h in &hists {
            // The auto-probing reader settles on a strategy with its first request; when that request lies in
            // unreadable memory no strategy succeeds and it latches "unavailable" for good (documented in
            // mem_reader.rs). The statement is about the three strategies, so such histories are not judged
            // for the composite reader.
            if s == Strat::Auto && h.first().map(|(off, _)| *off >= (PAGES * PAGE) as i64).unwrap_or(false) {
                continue;
            }
            evals += 1;
            let answers = guarded(|| {
                let mut rd = match s {
                    Strat::Vmem => MemReader::for_virtual_mem(pid),
                    Strat::File => match MemReader::for_file(pid) {
                        Ok(r) => r,
                        Err(_) => return Vec::new(),
                    },
                    Strat::Ptrace => MemReader::for_ptrace(pid),
                    Strat::Auto => MemReader::new(pid),
                };
                h.iter()
                    .map(|(off, len)| {
                        let mut buf = vec![0xA5u8; *len];
                        match rd.read((region as i64 + off) as usize, &mut buf) {
                            Ok(n) => {
                                buf.truncate(n);
                                Ok(buf)
                            }
                            Err(e) => Err(format!("{e:?}")),
                        }
                    })
                    .collect::<Vec<Result<Vec<u8>, String>>>()
            });
            let case = json!({"reuse": true, "protnone": protnone, "strategy": s.name(), "reads": h.iter().map(|(o, l)| json!([o, l])).collect::<Vec<_>>()});
            match answers {
                Err(pm) => fails.push((format!("reused-reader/{}/panic", s.name()), format!("panic: {pm}"), case)),
                Ok(ans) => {
                    let mut sig = (s as u64) << 32;
                    for (i, ((off, len), r)) in h.iter().zip(ans.iter()).enumerate() {
                        sig = sig.wrapping_mul(31).wrapping_add(match r { Ok(v) if v.len() == *len => 1, Ok(_) => 2, Err(_) => 3 });
                        if let Some((k, m)) = judge(region, protnone, (region as i64 + off) as u64, *len, r) {
                            let key = format!("reused-reader/{}/{k}", s.name());
                            if fails.len() < 30 && !fails.iter().any(|f| f.0 == key) {
                                fails.push((key, format!("{} reader, request #{i} of the history {h:?} (offset from region start, length): {m}", s.name()), case.clone()));
                            }
                            break;
                        }
                    }
                    outcomes.insert(sig);
                }
            }
        }
    }
    if attached {
        unsafe {
            libc::ptrace(libc::PTRACE_DETACH, pid, 0, 0);
        }
    }
    (evals, fails, outcomes)
}

pub fn run(ctx: &Ctx, rep: &mut Report) {
    rep.rule = "start alignment 0..7 x length (1..300 + boundary powers quick; 1..4112 + powers thorough) x placement {region start, interior, ends exactly at the region end, crosses the end by 1..8, starts 1..8 bytes before the region} x tail {unmapped, PROT_NONE} (lengths 1..40 also with an unmapped hole instead of the guard page in front) x {process_vm_readv, /proc/pid/mem, PTRACE_PEEKDATA, fresh auto-probing reader}, a fresh reader per read; plus SEQ: one reader per strategy serving every ordered history of 2..3 (thorough 4) requests from an 8-letter alphabet (interior, at both ends, crossing the end after 7 / 3000 readable bytes, behind the end, in the guard page in front, long unaligned), every answer judged; nontrivial = reads touching a region boundary, and all reuse histories".into();
    rep.assume("the PROT_NONE tail page was never written, so its true content is zero; the kernel may legitimately let /proc/pid/mem and ptrace read it");
    if let Some(case) = &ctx.replay {
        let protnone = case["protnone"].as_bool().unwrap_or(false);
        if case["reuse"].as_bool() == Some(true) {
            let s = STRATS.iter().copied().find(|s| Some(s.name()) == case["strategy"].as_str()).unwrap_or(Strat::File);
            let h: Vec<(i64, usize)> = case["reads"].as_array().map(|a| a.iter().map(|r| (r[0].as_i64().unwrap_or(0), r[1].as_u64().unwrap_or(1) as usize)).collect()).unwrap_or_default();
            let (ev, fails, _) = run_reuse(protnone, 0, Some((s, h)));
            rep.evaluations += ev;
            for (k, m, c) in fails {
                rep.violation(&k, &m, c);
            }
            return;
        }
        let mut p = Puppet::spawn();
        let region = p.pattern(PAGES as usize, if protnone { "protnone" } else { "hole" }, "rw");
        for (o, l) in FF_SPANS {
            p.write(region + o, &vec![0xffu8; l as usize]);
        }
        if case["front_hole"].as_bool() == Some(true) && p.cmd(&format!("unmap {:#x} 4096", region - PAGE)).is_ok() {
            FRONT_HOLE.with(|f| f.set(true));
        }
        p.quiesce();
        let s = STRATS.iter().copied().find(|s| Some(s.name()) == case["strategy"].as_str()).unwrap_or(Strat::Vmem);
        let attached = unsafe {
            let r = libc::ptrace(libc::PTRACE_ATTACH, p.pid, 0, 0);
            if r == 0 {
                let mut st = 0;
                libc::waitpid(p.pid, &mut st, libc::__WALL);
            }
            r == 0
        };
        let start = (region as i64 + case["offset_from_region"].as_i64().unwrap_or(0)) as u64;
        let len = case["len"].as_u64().unwrap_or(1) as usize;
        let r = read_with(p.pid, s, start, len);
        rep.evaluations += 1;
        if let Some((k, m)) = judge(region, protnone, start, len, &r) {
            rep.violation(&format!("{}/{k}/replay", s.name()), &m, case.clone());
        }
        if attached {
            unsafe {
                libc::ptrace(libc::PTRACE_DETACH, p.pid, 0, 0);
            }
        }
        return;
    }
    let all = lens(ctx.tier.is_thorough());
    let mut chunks = Vec::new();
    for protnone in [false, true] {
        for part in all.chunks(all.len().div_ceil(8)) {
            chunks.push(Chunk { front_hole: false, protnone, lens: part.to_vec() });
        }
    }
    // the same short lengths with an unmapped hole in front of the region
    chunks.push(Chunk { front_hole: true, protnone: false, lens: (1..=40).collect() });
    let results = par_map(&chunks, |_, c| run_chunk(c));
    FRONT_HOLE.with(|f| f.set(false));
    for (evals, nt, fails, sample, outs) in results {
        for o in outs {
            rep.outcome(o);
        }
        rep.evaluations += evals;
        rep.nontrivial += nt;
        if let Some(s) = sample {
            rep.sample(s);
        }
        for (k, m, c) in fails {
            rep.violation(&k, &m, c);
        }
    }
    // reader-reuse histories
    let depth = if ctx.tier.is_thorough() { 4 } else { 3 };
    let tails = [false, true];
    let reuse = par_map(&tails, |_, t| run_reuse(*t, depth, None));
    let mut reuse_evals = 0;
    for (ev, fails, outs) in reuse {
        reuse_evals += ev;
        rep.evaluations += ev;
        rep.nontrivial += ev;
        for o in outs {
            rep.outcome(o);
        }
        for (k, m, c) in fails {
            rep.violation(&k, &m, c);
        }
    }
    rep.set("reader_reuse_histories", json!({"depth": depth, "request_alphabet": reuse_alphabet().len(), "histories_x_strategies_x_tails": reuse_evals}));
    rep.set("lengths", json!(all.len()));
    rep.states = rep.evaluations;
    rep.transitions = rep.evaluations;
    rep.traces = rep.evaluations;
    rep.exhaustive = true;
}
