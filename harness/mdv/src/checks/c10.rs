//! C10 — every prefix of the output is a consistent truncated minidump.
//! Component part: DirSection histories (c09.rs). End-to-end part: recorded whole dumps (c10e.rs).
use crate::Ctx;
use mdv_core::Report;

pub fn run(ctx: &Ctx, rep: &mut Report) {
    rep.rule = "every prefix of the destination op log (crash point after each completed seek/write) of (a) every DirSection history of <=depth ops after the initial flush x 30 initial states, (b) recorded whole dumps of the puppet under each option set, replayed into a file image with a written-bytes bitmap; nontrivial = runs that emit at least one directory entry".into();
    rep.assume("destination model: a write that returns n has stored exactly those n bytes; nothing is reordered (regular file / Vec cursor)");
    if let Some(case) = &ctx.replay {
        if case.get("history").is_some() {
            crate::checks::c09::replay_component(case, rep, true);
        } else {
            crate::checks::c10e::replay(case, rep);
        }
        return;
    }
    crate::checks::c09::run_c10_component(ctx, rep);
    crate::checks::c10e::run(ctx, rep);
    rep.exhaustive = true;
}
