//! C01 — a successful dump is a structurally sound minidump.
//!
//! LAT over writer options (7 dimensions; full product at N=3, all tuples with <=2 deviations on
//! every other target shape) x target shapes (thread count, named/unnamed mixes, mappings,
//! descriptors). Oracle: the strict independent parser + interval non-overlap sweep (mdparse).

use crate::dump::{dump_mem, CrashSpec, DumpOpts, DumpResult, UserMap, DIM_RIP, DIM_RSP};
use crate::shapes::{build, classify, par_map, Built, Shape};
use crate::Ctx;
use mdv_core::mapsref::parse_maps;
use mdv_core::mdparse::Dump;
use mdv_core::{json, Report, Value};

pub const FIX: &str = "/verif/target/fixtures";

/// Addresses the option alphabets need, read from the puppet's own maps.
pub struct Env {
    pub main_stack: (u64, u64),
    pub text: (u64, u64),
    pub lib: Option<(u64, u64)>,
    pub auxv: (u64, u64, u64, u64),
}

pub fn env_of(b: &mut Built) -> Env {
    let maps = parse_maps(&b.p.maps_text()).unwrap_or_default();
    let main_stack = maps.iter().find(|l| l.name.as_deref() == Some(b"[stack]")).map(|l| (l.start, l.end)).unwrap_or((0, 0));
    let text = maps.iter().find(|l| l.executable() && l.name.as_ref().map(|n| n.ends_with(b"/puppet")).unwrap_or(false)).map(|l| (l.start, l.end)).unwrap_or((0, 0));
    let libl: Vec<_> = maps.iter().filter(|l| l.name.as_ref().map(|n| n.windows(6).any(|w| w == b"libfix")).unwrap_or(false)).collect();
    let lib = if libl.is_empty() { None } else { Some((libl[0].start, libl.last().unwrap().end)) };
    let a = b.p.auxv();
    // the auxv command ran code on the main thread: wait until it is parked again (and make the
    // last thing it did the same `ping` that every later quiesce() ends with)
    b.p.quiesce();
    Env { main_stack, text, lib, auxv: (a.1, a.0, a.2, a.3) } // (phnum, phdr, gate, entry)
}

pub const DIMS: [usize; 7] = [4, 3, 2, 3, 4, 2, 3];
pub const DIM_NAMES: [&str; 7] = ["crash", "limit", "sanitize", "skip", "app", "usermap", "auxv"];

pub fn opts_for(idx: &[usize], b: &Built, env: &Env) -> DumpOpts {
    let mut o = DumpOpts::default();
    let pid = b.p.pid;
    match idx[0] {
        0 => {}
        k => {
            let mut devs = vec![(DIM_RSP, env.main_stack.1 - 0x1800), (DIM_RIP, env.text.0 + 0x40)];
            if k == 2 {
                devs[0].1 = 0x10;
            }
            if k == 3 {
                devs[1].1 = env.text.0;
            }
            o.crash = Some(CrashSpec { tid: pid, signo: 11, code: 1, addr: 0xdead_0000, devs });
        }
    }
    o.size_limit = match idx[1] {
        0 => None,
        1 => Some(1),
        _ => Some(u64::MAX / 2),
    };
    o.sanitize = idx[2] == 1;
    match idx[3] {
        0 => {}
        1 => {
            o.skip_unref = true;
            o.principal = Some(if !b.p.threads.is_empty() { b.p.threads[0].page as usize + 8 } else { env.text.0 as usize + 8 });
        }
        _ => {
            o.skip_unref = true;
            o.principal = Some(0x10);
        }
    }
    if idx[4] >= 1 && !b.pattern_addrs.is_empty() {
        o.app_memory.push((b.pattern_addrs[0] as usize + 3, 4096 + 100));
        if idx[4] == 2 {
            o.app_memory.push((b.pattern_addrs[0] as usize + 2 * 4096, 17));
        }
        if idx[4] == 3 {
            // a region whose head is readable and whose tail runs into the unmapped page after the
            // pattern region: the vectored read returns fewer bytes than requested
            o.app_memory.push((b.pattern_addrs[0] as usize + 4 * 4096 - 64, 4360));
        }
    }
    if idx[5] == 1 {
        if let Some((s, e)) = env.lib {
            o.user_mappings.push(UserMap { start: (s - 0x1000) as usize, size: (e - s + 0x2000) as usize, name: "/user/supplied/libuser.so".into(), id: (1..=20).collect() });
        }
    }
    o.direct_auxv = match idx[6] {
        0 => None,
        1 => Some(env.auxv),
        _ => Some((env.auxv.0, env.auxv.1, 0, 0)),
    };
    o
}

fn base_shape(n: usize, name_mode: usize, fds: usize) -> Shape {
    let mut s = Shape { n, ..Default::default() };
    for i in 0..n {
        let nm: Option<Vec<u8>> = match name_mode {
            0 => Some(format!("thr{i}").into_bytes()),
            1 => if i == 0 { Some(b"\xff\xfe".to_vec()) } else { Some(format!("thr{i}").into_bytes()) },
            2 => if i % 2 == 1 { Some(b"\xffodd".to_vec()) } else if i % 4 == 0 { Some("n\u{e9}\u{1f980}".as_bytes().to_vec()) } else { Some(format!("t{i}\u{20ac}").into_bytes()) },
            _ => Some(b"\xfe".to_vec()),
        };
        s.names.push(nm);
    }
    s.patterns.push((4, "hole".into(), "rw".into()));
    s.dlopen.push(format!("{FIX}/libfix_sha1.so").into_bytes());
    s.files.push((format!("{FIX}/plain.bin").into_bytes(), 0, 8192, "r".into()));
    if name_mode >= 2 {
        // non-ASCII names everywhere a string is stored: module path, handle target
        s.dlopen.push(format!("{FIX}/libnonascii_\u{e9}.so").into_bytes());
        s.fds.push(("file".into(), format!("{FIX}/plain_\u{fc}_\u{1f600}.bin").into_bytes()));
    }
    for k in 0..fds {
        match k % 4 {
            0 => s.fds.push(("devnull".into(), vec![])),
            1 => s.fds.push(("pipe".into(), vec![])),
            2 => s.fds.push(("file".into(), format!("{FIX}/plain.bin").into_bytes())),
            _ => s.fds.push(("socket".into(), vec![])),
        }
    }
    s
}

pub fn shape_n3() -> Shape {
    base_shape(3, 2, 2)
}

pub struct Res {
    pub case: Value,
    pub errors: Vec<String>,
    pub status: u8, // 0 ok, 1 err, 2 panic
    pub detail: String,
    pub outcome: u64,
}

fn judge_owned(bytes: &[u8]) -> Vec<String> {
    judge(bytes)
}

pub fn judge(bytes: &[u8]) -> Vec<String> {
    Dump::parse(bytes).structural_errors()
}

fn run_shape(shape: &Shape, tuples: &[Vec<usize>]) -> Vec<Res> {
    let mut b = build(shape);
    let env = env_of(&mut b);
    let mut out = Vec::new();
    for t in tuples {
        let o = opts_for(t, &b, &env);
        let case = json!({"shape": shape.to_json(), "options": t});
        match dump_mem(b.p.pid, &o) {
            DumpResult::Ok(bytes) => {
                let errors = judge(&bytes);
                let d = Dump::parse(&bytes);
                let sig = format!("{}/{}/{}/{}/{}", d.threads.len(), d.thread_names.len(), d.memory.len(), d.modules.len(), d.dir.iter().filter(|e| e.ty != 0).count());
                out.push(Res { case, errors, status: 0, detail: String::new(), outcome: mdv_core::fnv(sig.as_bytes()) });
            }
            DumpResult::Err(e) => out.push(Res { case, errors: vec![], status: 1, detail: e, outcome: 1 }),
            DumpResult::Panic(p) => out.push(Res { case, errors: vec![], status: 2, detail: p, outcome: 2 }),
        }
    }
    // the same target again with the writer forced onto its fallback read strategies
    for strat in [1u8, 2] {
        for t in [vec![0usize; 7], vec![1, 1, 1, 1, 2, 1, 1]] {
            if strat == 2 && shape.n > 8 {
                continue; // word-by-word reads of dozens of stacks: kept for the small shapes
            }
            let o = opts_for(&t, &b, &env);
            b.p.quiesce();
            let res = crate::envrun::env_dump(&b.p, &crate::envrun::EnvSpec { opts: o, plan: crate::envrun::strategy_plan(strat), ..Default::default() }, std::collections::HashMap::new(), None);
            let case = json!({"shape": shape.to_json(), "options": t, "strategy": strat});
            match res.result {
                DumpResult::Ok(bytes) => out.push(Res { case, errors: judge(&bytes), status: 0, detail: String::new(), outcome: 100 + strat as u64 }),
                DumpResult::Err(e) => out.push(Res { case, errors: vec![], status: 1, detail: e, outcome: 1 }),
                DumpResult::Panic(p) => out.push(Res { case, errors: vec![], status: 2, detail: p, outcome: 2 }),
            }
        }
    }
    out
}

pub fn run(ctx: &Ctx, rep: &mut Report) {
    rep.rule = "target shapes (N in {1,2,3,5,20,21,22,64}(quick) / 1..64 selection (thorough) x 4 named/unnamed mixes x {0,8} descriptors, each with a pattern region, a dlopen'ed ELF with build id and a mapped non-ELF file) x option tuples over 7 dimensions (crash 4, limit 3, sanitize 2, skip 3, app memory 4 (none, one, two, one partially unreadable), user mapping 2, direct auxv 3): full product (1728) at N=3, all tuples with <=2 deviations elsewhere; nontrivial = successful dumps of shapes with both named and unnamed threads or with >=2 option deviations".into();
    if let Some(case) = &ctx.replay {
        if case.get("family").is_some() {
            // a hostile-world case shared with C02
            let Some(c) = crate::checks::c02::Case::from_json(case) else {
                rep.machinery("bad replay".into());
                return;
            };
            *crate::checks::c02::EXTRA_JUDGE.write().unwrap() = Some(judge_owned);
            let v = crate::checks::c02::run_standalone(&c);
            rep.evaluations += 1;
            for e in v.structure {
                rep.violation(&format!("hostile/{}/{}", c.family(), classify(&e)), &e, case.clone());
            }
            return;
        }
        let Some(shape) = case.get("shape").and_then(Shape::from_json) else {
            rep.machinery("bad replay shape".into());
            return;
        };
        let t: Vec<usize> = case.get("options").and_then(|o| o.as_array()).map(|a| a.iter().map(|x| x.as_u64().unwrap_or(0) as usize).collect()).unwrap_or_default();
        for r in run_shape(&shape, &[t]) {
            rep.evaluations += 1;
            for e in r.errors {
                rep.violation(&format!("structure/{}", classify(&e)), &e, r.case.clone());
            }
            if r.status != 0 {
                eprintln!("dump did not succeed: {}", r.detail);
            }
        }
        return;
    }
    // work items: (shape, tuples)
    let mut items: Vec<(Shape, Vec<Vec<usize>>)> = Vec::new();
    let mut full: Vec<Vec<usize>> = Vec::new();
    mdv_core::lat::product(&DIMS, |t| full.push(t.to_vec()));
    // split the full product at N=3 across 16 identical puppets
    for chunk in full.chunks(full.len().div_ceil(16)) {
        items.push((base_shape(3, 2, 2), chunk.to_vec()));
    }
    let mut lat2: Vec<Vec<usize>> = Vec::new();
    mdv_core::lat::lat(&DIMS, 2, |t| lat2.push(t.to_vec()));
    let ns: Vec<usize> = if ctx.tier.is_thorough() { vec![1, 2, 3, 4, 5, 8, 13, 19, 20, 21, 22, 33, 48, 63, 64] } else { vec![1, 2, 3, 5, 20, 21, 22, 64] };
    for &n in &ns {
        for mode in 0..4 {
            for fds in [0usize, 8] {
                if !ctx.tier.is_thorough() && fds == 8 && mode != 2 {
                    continue;
                }
                items.push((base_shape(n, mode, fds), lat2.clone()));
            }
        }
    }
    let results = par_map(&items, |_, (shape, tuples)| run_shape(shape, tuples));
    let (mut ok, mut err, mut pan) = (0u64, 0u64, 0u64);
    let mut first_err: Option<Value> = None;
    for (ri, rs) in results.into_iter().enumerate() {
        let mixed = matches!(items[ri].0.names.first(), Some(Some(n)) if n.starts_with(b"\xff")) || items[ri].0.names.iter().any(|n| matches!(n, Some(b) if b.starts_with(b"\xff")));
        for r in rs {
            rep.evaluations += 1;
            rep.outcome(r.outcome);
            match r.status {
                0 => {
                    ok += 1;
                    let devs = r.case["options"].as_array().map(|a| a.iter().filter(|x| x.as_u64() != Some(0)).count()).unwrap_or(0);
                    if mixed || devs >= 2 {
                        rep.nontrivial += 1;
                    }
                    if rep.samples.len() < 2 && devs >= 3 {
                        rep.sample(r.case.clone());
                    }
                }
                1 => {
                    err += 1;
                    if first_err.is_none() {
                        first_err = Some(json!({"case": r.case, "error": r.detail}));
                    }
                }
                _ => {
                    pan += 1;
                    if first_err.is_none() {
                        first_err = Some(json!({"case": r.case, "panic": r.detail}));
                    }
                }
            }
            for e in r.errors {
                rep.violation(&format!("structure/{}", classify(&e)), &e, r.case.clone());
            }
        }
    }
    // hostile-world targets and environments (the C02 case list: hostile registers, auxv, linker data,
    // names, /dev mappings, mutated mapped ELF images, every single libc deviation, the target killed
    // before every keyed call): whenever such a dump succeeds it must be structurally sound as well
    *crate::checks::c02::EXTRA_JUDGE.write().unwrap() = Some(judge_owned);
    let hostile = if crate::checks::universal::IN_CROSS.load(std::sync::atomic::Ordering::SeqCst) { Vec::new() } else { crate::checks::c02::run_real_cases(ctx.tier.is_thorough()) };
    let (mut hok, mut hother) = (0u64, 0u64);
    for (c, v) in hostile {
        rep.evaluations += 1;
        rep.outcome(mdv_core::fnv(format!("hostile{}{}", c.family(), v.kind).as_bytes()));
        if v.kind == 0 {
            hok += 1;
            ok += 1;
            rep.nontrivial += 1;
        } else {
            hother += 1;
        }
        for e in v.structure {
            rep.violation(&format!("hostile/{}/{}", c.family(), classify(&e)), &e, c.to_json());
        }
    }
    rep.set("hostile_world_dumps", json!({"succeeded_and_judged": hok, "not_successful": hother}));
    rep.set("dumps", json!({"succeeded": ok, "returned_error": err, "panicked": pan}));
    if let Some(f) = first_err {
        rep.set("first_unsuccessful_dump", f);
    }
    if ok == 0 {
        rep.machinery("no dump succeeded: the check would be vacuous".into());
    }
    rep.set("option_dimensions", json!(DIM_NAMES));
    rep.states = rep.evaluations;
    rep.transitions = rep.evaluations;
    rep.traces = ok;
    rep.exhaustive = true;
}
