//! C12 — stack sanitisation lets only pointers and small integers survive.
//!
//! LAT explorer on the real `PtraceDumper::sanitize_stack_copy` (a real dumper on an idle child,
//! `mappings` overwritten): mapping layouts x word sequences (order matters for the last-hit
//! cache) x stack-pointer offsets x region lengths (incl. shorter than the offset, partial tails).
//! Oracle: the classifier restated from the property statement.

use crate::checks::guarded;
use crate::idle::{mapping, perms, IdleTarget};
use crate::Ctx;
use mdv_core::{json, Report, Value};
use minidump_writer::maps_reader::MappingInfo;

const SENTINEL: u64 = 0x0defaced0defaced;

const CANDS: [(u64, u64); 9] = [
    (0x5555_5540_0000, 0x1000),    // bucket(2 MiB)-aligned, one page
    (0x5555_557f_f000, 0x1000),    // last page of a bucket
    (0x5555_55bf_f000, 0x2000),    // two pages straddling a bucket boundary
    (0x5555_5600_0000, 0x20_1000), // 2 MiB + 1 page
    (0x7f00_ffe0_0000, 0x20_1000), // crosses a 4 GiB boundary: the 2048-bit pre-filter wraps here
    (0x7fff_f7a0_0000, 0x3000),    // high canonical
    (0x1000, 0x1000),              // lowest mappable page: meets the small-integer range at 4096
    (0x0000_0000_ffff_f000, 0x2000), // straddles 4 GiB exactly
    (0xffff_ffff_ff60_0000, 0x1000), // the kernel's [vsyscall] page: a mapping in the upper half of the address space
];
const STACK: (u64, u64) = (0x7ffd_1000_0000, 0x2_1000);
const FOLD_GAP: u64 = 0x2000;

#[derive(Clone, Debug)]
struct Layout {
    maps: Vec<(u64, u64, bool)>, // start, size, executable
    stack: u8,                   // 0 = rw- stack mapping, 1 = rwx stack mapping, 2 = SP in no mapping
    /// 0 = list in ascending address order; k > 0 = entries 0 and k swapped, the way the dumper
    /// moves the mapping holding the program's entry point to the front of its list
    front: u8,
    /// every executable mapping carries a folded reserved range of 2 pages behind it: its `size` covers
    /// it, its system extent does not (what the aggregation of a library with a trailing ---p gap yields)
    fold: bool,
}

impl Layout {
    fn to_json(&self) -> Value {
        json!({"maps": self.maps.iter().map(|(s, z, x)| json!([s, z, x])).collect::<Vec<_>>(), "stack": self.stack, "front": self.front, "fold": self.fold})
    }
    fn from_json(v: &Value) -> Option<Layout> {
        let maps = v.get("maps")?.as_array()?.iter().map(|m| Some((m.get(0)?.as_u64()?, m.get(1)?.as_u64()?, m.get(2)?.as_bool()?))).collect::<Option<Vec<_>>>()?;
        Some(Layout { maps, stack: v.get("stack")?.as_u64()? as u8, front: v.get("front").and_then(|f| f.as_u64()).unwrap_or(0) as u8, fold: v.get("fold").and_then(|f| f.as_bool()).unwrap_or(false) })
    }
    fn mapping_infos(&self) -> Vec<MappingInfo> {
        let mut v: Vec<MappingInfo> = self.maps.iter().map(|(s, z, x)| mapping(*s as usize, *z as usize, perms(true, false, *x), Some("/lib/x.so"))).collect();
        if self.stack < 2 {
            v.push(mapping(STACK.0 as usize, STACK.1 as usize, perms(true, true, self.stack == 1), Some("[stack]")));
        }
        v.sort_by_key(|m| m.start_address);
        if self.fold {
            for m in v.iter_mut() {
                if m.is_executable() && m.name.as_ref().map(|n| n != "[stack]").unwrap_or(true) {
                    m.size += FOLD_GAP as usize; // system_mapping_info keeps the real end
                }
            }
        }
        if self.front > 0 && (self.front as usize) < v.len() {
            v.swap(0, self.front as usize);
        }
        v
    }
    fn stack_range(&self) -> Option<(u64, u64)> {
        if self.stack < 2 {
            Some((STACK.0, STACK.0 + STACK.1))
        } else {
            None
        }
    }
    fn exec_ranges(&self) -> Vec<(u64, u64)> {
        let mut v: Vec<(u64, u64)> = self.maps.iter().filter(|m| m.2).map(|m| (m.0, m.0 + m.1)).collect();
        if self.stack == 1 {
            v.push((STACK.0, STACK.0 + STACK.1));
        }
        v
    }
    /// Address ranges whose classification the statement leaves open: the folded reserved range behind an
    /// executable mapping (inside the mapping's reported extent, outside what the kernel maps executable).
    /// Words pointing there may be kept or replaced, but the SAME word must get the same treatment wherever
    /// it stands on the stack.
    fn ambiguous_ranges(&self) -> Vec<(u64, u64)> {
        if !self.fold {
            return vec![];
        }
        self.maps.iter().filter(|m| m.2).map(|m| (m.0 + m.1, m.0 + m.1 + FOLD_GAP)).collect()
    }
    fn all_ranges(&self) -> Vec<(u64, u64)> {
        let mut v: Vec<(u64, u64)> = self.maps.iter().map(|m| (m.0, m.0 + m.1)).collect();
        v.push((STACK.0, STACK.0 + STACK.1));
        v
    }
}

fn layouts(max_k: usize) -> Vec<Layout> {
    let mut out = Vec::new();
    let n = CANDS.len();
    for mask in 0u32..(1 << n) {
        let k = mask.count_ones() as usize;
        if k > max_k {
            continue;
        }
        let idx: Vec<usize> = (0..n).filter(|i| mask & (1 << i) != 0).collect();
        if idx.contains(&8) && k > 2 {
            continue; // the upper-half mapping only in layouts of at most two mappings
        }
        for xmask in 0u32..(1 << k) {
            let maps: Vec<(u64, u64, bool)> = idx.iter().enumerate().map(|(j, i)| (CANDS[*i].0, CANDS[*i].1, xmask & (1 << j) != 0)).collect();
            for stack in 0..3u8 {
                let len = maps.len() + if stack < 2 { 1 } else { 0 };
                for front in 0..len.max(1) as u8 {
                    out.push(Layout { maps: maps.clone(), stack, front, fold: false });
                    if front == 0 && maps.len() <= 2 && maps.iter().any(|m| m.2) {
                        out.push(Layout { maps: maps.clone(), stack, front, fold: true });
                    }
                }
            }
        }
    }
    // simplest first
    out.sort_by_key(|l| (l.maps.len(), l.front, l.maps.iter().filter(|m| m.2).count(), l.stack));
    out
}

fn word_alphabet(l: &Layout) -> (Vec<u64>, Vec<u64>) {
    let ints: [i64; 11] = [0, 1, -1, 4095, -4095, 4096, -4096, 4097, -4097, i64::MIN, i64::MAX];
    let mut full: Vec<u64> = ints.iter().map(|x| *x as u64).collect();
    full.push(SENTINEL);
    let mut core: Vec<u64> = vec![0, (-1i64) as u64, 4096, (-4096i64) as u64, 4097, (-4097i64) as u64];
    for (s, e) in l.all_ranges() {
        let mid = s + ((e - s) / 2 & !7) + 8;
        for w in [s.wrapping_sub(1), s, mid, e - 1, e] {
            full.push(w);
        }
        for w in [s, e - 1] {
            full.push(w.wrapping_add(1 << 32));
            full.push(w.wrapping_sub(1 << 32));
        }
        core.push(s);
        core.push(e);
    }
    for (s, e) in l.ambiguous_ranges() {
        for w in [s, s + 8, e - 8] {
            full.push(w);
        }
        core.insert(2, s + 8);
    }
    let dedup = |v: Vec<u64>| {
        let mut seen = std::collections::HashSet::new();
        v.into_iter().filter(|w| seen.insert(*w)).collect::<Vec<_>>()
    };
    let mut core = dedup(core);
    core.truncate(12);
    (dedup(full), core)
}

fn classify(w: u64, stack: Option<(u64, u64)>, exec: &[(u64, u64)]) -> Option<&'static str> {
    if (w as i64).unsigned_abs() <= 4096 {
        return Some(if (w as i64) < 0 { "negative-small-int" } else { "small-int" });
    }
    if let Some((s, e)) = stack {
        if w >= s && w < e {
            return Some("stack-pointer");
        }
    }
    if exec.iter().any(|(s, e)| w >= *s && w < *e) {
        return Some("code-pointer");
    }
    None
}

/// The statement's laws for one call. Returns (class key, message).
fn sanref(orig: &[u8], res: &[u8], sp_off: usize, stack: Option<(u64, u64)>, exec: &[(u64, u64)], ambiguous: &[(u64, u64)], seen_amb: &mut Vec<(u64, bool)>, counts: &mut [u64; 5]) -> Option<(String, String)> {
    if orig.len() != res.len() {
        return Some(("length-changed".into(), format!("region length {} became {}", orig.len(), res.len())));
    }
    let len = orig.len();
    for i in 0..sp_off.min(len) {
        if res[i] != 0 {
            return Some(("below-sp-not-zero".into(), format!("byte {i} below the stack pointer (offset {sp_off}) is {:#x}", res[i])));
        }
    }
    let off = (sp_off + 7) & !7;
    for i in sp_off..off.min(len) {
        if res[i] != 0 && res[i] != orig[i] {
            return Some(("sp-padding-fabricated".into(), format!("byte {i} between SP and the next word is {:#x}, was {:#x}", res[i], orig[i])));
        }
    }
    let mut o = off;
    while o + 8 <= len {
        let w = u64::from_ne_bytes(orig[o..o + 8].try_into().unwrap());
        let r = u64::from_ne_bytes(res[o..o + 8].try_into().unwrap());
        if ambiguous.iter().any(|(s, e)| w >= *s && w < *e) && classify(w, stack, exec).is_none() {
            if r != w && r != SENTINEL {
                return Some(("word-neither-kept-nor-sentinel".into(), format!("word {w:#x} at offset {o} came out as {r:#x}")));
            }
            // order independence within one call: the same word, the same verdict
            let kept = r == w;
            if let Some((_, k0)) = seen_amb.iter().find(|(w0, _)| *w0 == w) {
                if *k0 != kept {
                    return Some(("same-word-treated-differently".into(), format!("word {w:#x} (in the folded reserved range behind an executable mapping) is {} at offset {o} but was {} when it stood elsewhere (alone, or at another position of a stack) under the same mappings", if kept { "kept" } else { "replaced" }, if *k0 { "kept" } else { "replaced" })));
                }
            } else {
                seen_amb.push((w, kept));
            }
            o += 8;
            continue;
        }
        match classify(w, stack, exec) {
            Some(class) => {
                counts[match class {
                    "small-int" => 0,
                    "negative-small-int" => 1,
                    "stack-pointer" => 2,
                    _ => 3,
                }] += 1;
                if r != w {
                    return Some((format!("qualifying-word-changed/{class}"), format!("word {w:#x} ({class}) at offset {o} was changed to {r:#x}")));
                }
            }
            None => {
                counts[4] += 1;
                if r != SENTINEL {
                    return Some(("nonqualifying-word-survived".into(), format!("word {w:#x} at offset {o} qualifies as nothing but came out as {r:#x} instead of the sentinel")));
                }
            }
        }
        o += 8;
    }
    for i in o.min(len)..len {
        if res[i] != 0 {
            return Some(("tail-not-zero".into(), format!("trailing partial-word byte {i} is {:#x}", res[i])));
        }
    }
    None
}

struct Case {
    layout: Layout,
    sp_off: usize,
    bytes: Vec<u8>,
}

impl Case {
    fn to_json(&self) -> Value {
        json!({"layout": self.layout.to_json(), "sp_off": self.sp_off, "bytes": mdv_core::hex(&self.bytes)})
    }
}

fn run_case(d: &minidump_writer::ptrace_dumper::PtraceDumper, c: &Case, seen_amb: &mut Vec<(u64, bool)>, counts: &mut [u64; 5]) -> Option<(String, String)> {
    let sp = (STACK.0 + 0x2000) as usize + c.sp_off;
    let mut buf = c.bytes.clone();
    match guarded(|| d.sanitize_stack_copy(&mut buf, sp, c.sp_off)) {
        Err(p) => {
            let kind = if c.bytes.len() < ((c.sp_off + 7) & !7) { "panic/length-shorter-than-offset" } else { "panic/other" };
            Some((kind.into(), format!("sanitize_stack_copy panicked (len {}, sp offset {}): {p}", c.bytes.len(), c.sp_off)))
        }
        Ok(Err(e)) => Some(("returned-error".into(), format!("sanitize_stack_copy returned an error: {e}"))),
        Ok(Ok(())) => sanref(&c.bytes, &buf, c.sp_off, c.layout.stack_range(), &c.layout.exec_ranges(), &c.layout.ambiguous_ranges(), seen_amb, counts),
    }
}

fn region(sp_off: usize, words: &[u64], tail: usize, fill: u8) -> Vec<u8> {
    let off = (sp_off + 7) & !7;
    let mut b = vec![fill; off];
    for w in words {
        b.extend_from_slice(&w.to_ne_bytes());
    }
    b.extend(std::iter::repeat(fill).take(tail));
    b
}

#[derive(Default)]
struct Acc {
    evals: u64,
    counts: [u64; 5],
    fails: Vec<(String, String, Value)>,
    outcomes: std::collections::HashSet<u64>,
    sample: Option<Value>,
    nontrivial: u64,
}

fn explore_layout(d: &mut minidump_writer::ptrace_dumper::PtraceDumper, l: &Layout, thorough: bool, acc: &mut Acc) {
    d.mappings = l.mapping_infos();
    let mut seen_amb: Vec<(u64, bool)> = Vec::new();
    let (full, core) = word_alphabet(l);
    let offs: &[usize] = &[0, 1, 7, 8, 9, 15, 16, 24];
    let mut one = |words: &[u64], sp_off: usize, tail: usize, acc: &mut Acc| {
        let c = Case { layout: l.clone(), sp_off, bytes: region(sp_off, words, tail, 0xAB) };
        acc.evals += 1;
        let before = acc.counts;
        if let Some((k, m)) = run_case(d, &c, &mut seen_amb, &mut acc.counts) {
            if acc.fails.len() < 40 && !acc.fails.iter().any(|f| f.0 == k) {
                acc.fails.push((k, m, c.to_json()));
            }
        }
        // outcome signature = which classes occurred in this call
        let mut sig = [0u8; 5];
        for i in 0..5 {
            sig[i] = (acc.counts[i] > before[i]) as u8;
        }
        if sig[..4].iter().any(|x| *x == 1) && sig[4] == 1 {
            acc.nontrivial += 1;
        }
        acc.outcomes.insert(mdv_core::fnv(&sig) ^ (words.len() as u64));
        if acc.sample.is_none() && words.len() == 3 {
            acc.sample = Some(c.to_json());
        }
    };
    for &sp_off in offs {
        for &a in &full {
            one(&[a], sp_off, 0, acc);
        }
        let pair_alpha: &[u64] = &full;
        let _ = thorough;
        for &a in pair_alpha {
            for &b in pair_alpha {
                one(&[a, b], sp_off, 0, acc);
            }
        }
        {
            for &a in &core {
                for &b in &core {
                    for &c in &core {
                        one(&[a, b, c], sp_off, 0, acc);
                    }
                }
            }
        }
    }
}

fn explore_lengths(d: &mut minidump_writer::ptrace_dumper::PtraceDumper, acc: &mut Acc) {
    // every (sp offset 0..=24) x (region length 0..=48): includes lengths shorter than the offset
    // and every partial tail 1..7
    for l in layouts(1).into_iter().filter(|l| l.maps.len() == 1 && l.maps[0].0 == CANDS[0].0 && l.front == 0) {
        d.mappings = l.mapping_infos();
        let words = [CANDS[0].0 + 8, (-1i64) as u64, 0x1234_5678_9abc_def0, STACK.0 + 0x3000, 4096, SENTINEL];
        let mut content = Vec::new();
        for w in words {
            content.extend_from_slice(&w.to_ne_bytes());
        }
        for sp_off in 0..=24usize {
            for len in 0..=48usize {
                // bytes: 0xCD below the word area, then the words, truncated to len
                let off = (sp_off + 7) & !7;
                let mut bytes = vec![0xCD; off];
                bytes.extend_from_slice(&content);
                bytes.truncate(len);
                while bytes.len() < len {
                    bytes.push(0xEE);
                }
                let c = Case { layout: l.clone(), sp_off, bytes };
                acc.evals += 1;
                if len < off {
                    acc.nontrivial += 1;
                }
                if let Some((k, m)) = run_case(d, &c, &mut Vec::new(), &mut acc.counts) {
                    if acc.fails.len() < 40 && !acc.fails.iter().any(|f| f.0 == k) {
                        acc.fails.push((k, m, c.to_json()));
                    }
                }
            }
        }
    }
}

pub fn run(ctx: &Ctx, rep: &mut Report) {
    rep.rule = "LAT: mapping layouts (subsets of 9 candidate mappings placed around 2 MiB bucket / 4 GiB bitmap-wrap boundaries, one of them the [vsyscall] page in the upper half of the address space, x executable flags x 3 stack variants x list order {ascending, entry k swapped to the front}) x ordered word sequences (singles over the full per-layout alphabet, pairs, triples over a 12-letter core) x stack-pointer offsets; plus every (sp offset 0..24, length 0..48). nontrivial = calls whose words include both a qualifying and a non-qualifying word, or whose length is shorter than the rounded offset".into();
    rep.assume("words outside the per-layout boundary alphabet are not explored; 64-bit only");
    if let Some(case) = &ctx.replay {
        let t = IdleTarget::spawn();
        let mut d = t.dumper();
        let Some(layout) = case.get("layout").and_then(Layout::from_json) else {
            rep.machinery("bad replay layout".into());
            return;
        };
        d.mappings = layout.mapping_infos();
        let c = Case { layout, sp_off: case.get("sp_off").and_then(|v| v.as_u64()).unwrap_or(0) as usize, bytes: mdv_core::unhex(case.get("bytes").and_then(|v| v.as_str()).unwrap_or("")) };
        rep.evaluations += 1;
        let mut counts = [0u64; 5];
        // prime the per-layout record with each word of the case standing alone
        let mut seen: Vec<(u64, bool)> = Vec::new();
        let off = (c.sp_off + 7) & !7;
        let mut o = off;
        while o + 8 <= c.bytes.len() {
            let w = u64::from_ne_bytes(c.bytes[o..o + 8].try_into().unwrap());
            let single = Case { layout: c.layout.clone(), sp_off: 0, bytes: w.to_ne_bytes().to_vec() };
            let _ = run_case(&d, &single, &mut seen, &mut counts);
            o += 8;
        }
        if let Some((k, m)) = run_case(&d, &c, &mut seen, &mut counts) {
            rep.violation(&k, &m, case.clone());
        }
        return;
    }
    let thorough = ctx.tier.is_thorough();
    let ls = layouts(if thorough { 5 } else { 3 });
    let nthreads = std::thread::available_parallelism().map(|n| n.get()).unwrap_or(4).min(16);
    let mut accs: Vec<Acc> = Vec::new();
    std::thread::scope(|s| {
        let ls = &ls;
        let handles: Vec<_> = (0..nthreads)
            .map(|w| {
                s.spawn(move || {
                    let t = IdleTarget::spawn();
                    let mut d = t.dumper();
                    let mut acc = Acc::default();
                    for (i, l) in ls.iter().enumerate() {
                        if i % nthreads == w {
                            explore_layout(&mut d, l, thorough, &mut acc);
                        }
                    }
                    if w == 0 {
                        explore_lengths(&mut d, &mut acc);
                    }
                    drop(d);
                    acc
                })
            })
            .collect();
        for h in handles {
            accs.push(h.join().expect("thread"));
        }
    });
    let mut counts = [0u64; 5];
    for acc in accs {
        rep.evaluations += acc.evals;
        rep.nontrivial += acc.nontrivial;
        for i in 0..5 {
            counts[i] += acc.counts[i];
        }
        for o in acc.outcomes {
            rep.outcome(o);
        }
        if let Some(s) = acc.sample {
            rep.sample(s);
        }
        for (k, m, c) in acc.fails {
            rep.violation(&k, &m, c);
        }
    }
    rep.states = ls.len() as u64;
    rep.transitions = rep.evaluations;
    rep.traces = rep.evaluations;
    rep.set("layouts", json!(ls.len()));
    rep.set("words_per_class", json!({"small_int": counts[0], "negative_small_int": counts[1], "stack_pointer": counts[2], "code_pointer": counts[3], "non_qualifying": counts[4]}));
    rep.exhaustive = true;
}
