//! C02 — dumping is total: it always returns and never panics or hangs (and never opens a mapped
//! file under /dev).
//!
//! LAT + ENV: hostile-value alphabets per input family, 0/1(/2) deviations, each case a real dump
//! (or a real call of a public parsing entry point) under the interposed libc, so every open() of
//! the dumper is seen. Outcome must be Ok or Err within the watchdog limit; panics are keyed by
//! their source location.

use crate::checks::c01::{env_of, Env as Addr};
use crate::checks::guarded;
use crate::dump::{CrashSpec, DumpOpts, DumpResult, UserMap, DIM_RIP, DIM_RSP};
use crate::env::Alt;
use crate::envrun::{env_dump, EnvSpec};
use crate::puppet::{Kind, Puppet, RSP};
use crate::shapes::{build, par_map, Built, Shape};
use crate::Ctx;
use mdv_core::{json, Report, Value};
use std::collections::HashMap;

pub const FIX: &str = "/verif/target/fixtures";

pub struct Verdict {
    pub kind: u8, // 0 ok 1 err 2 panic
    pub fails: Vec<(String, String)>,
    /// structural errors of a successful dump (only computed when C01 drives this case list)
    pub structure: Vec<String>,
}

/// Set by C01 / C11 when they drive this case list: successful dumps of the hostile-world cases are
/// also judged by that property's validator (structure; soft-error stream laws).
pub static EXTRA_JUDGE: std::sync::RwLock<Option<fn(&[u8]) -> Vec<String>>> = std::sync::RwLock::new(None);

fn structure_of(r: &DumpResult) -> Vec<String> {
    let j = *EXTRA_JUDGE.read().unwrap_or_else(|e| e.into_inner());
    match (r, j) {
        (DumpResult::Ok(bytes), Some(f)) => f(bytes),
        _ => Vec::new(),
    }
}

fn panic_key(p: &str) -> String {
    let loc = p.split("panicked at ").nth(1).unwrap_or(p);
    let file = loc.split(':').next().unwrap_or("").rsplit('/').next().unwrap_or("");
    let line = loc.split(':').nth(1).unwrap_or("");
    format!("panic/{file}:{line}")
}

/// Run one dump under interposition and judge totality + the /dev rule.
pub fn total_dump(p: &Puppet, o: &DumpOpts, plan: Vec<(String, Alt)>, what: &str) -> Verdict {
    let out = env_dump(p, &EnvSpec { opts: o.clone(), plan, ..Default::default() }, HashMap::new(), None);
    let mut fails = Vec::new();
    let kind = match &out.result {
        DumpResult::Ok(_) => 0,
        DumpResult::Err(_) => 1,
        DumpResult::Panic(m) => {
            fails.push((panic_key(m), format!("{what}: dump panicked: {m}")));
            2
        }
    };
    for d in &out.dev_opens {
        let class = if d.starts_with("/dev/shm/") { "/dev/shm/*" } else { d.as_str() };
        fails.push((format!("dev-open/{class}"), format!("{what}: the dumper opened {d}")));
    }
    for r in &out.refused {
        // the subject tried to signal / trace a pid that is not the target: recorded, harmless here
        let _ = r;
    }
    Verdict { kind, fails, structure: structure_of(&out.result) }
}

// ---------------------------------------------------------------------------------------------
// Family A: crash-context rsp x rip x options

fn sp_alphabet(a: &Addr, hole: u64) -> Vec<u64> {
    let (lo, hi) = a.main_stack;
    vec![hi - 0x1800, 0, 1, 8, 4095, 4096, lo.wrapping_sub(8), lo, lo + 4095, lo + 1, hi - 8, hi, hi + 8, hole, hole + 4095, (1 << 47) - 4096, 1 << 47, 1 << 63, u64::MAX - 4095 - (1 << 20), u64::MAX - (1 << 20) + 1, u64::MAX - 4095, u64::MAX - 7, u64::MAX, lo.wrapping_sub(2048), lo.wrapping_sub(4096), lo.wrapping_sub((1 << 20) - 8), lo.wrapping_sub((1 << 20) + 8)]
}

fn ip_alphabet(a: &Addr, hole: u64) -> Vec<u64> {
    let (s, e) = a.text;
    vec![s + 0x40, 0, 1, 127, 128, s.wrapping_sub(1), s, s + 127, s + 128, s + 129, e - 129, e - 128, e - 127, e - 1, e, e + 1, hole, hole + 127, 1 << 47, 1 << 63, u64::MAX - 128, u64::MAX - 127, u64::MAX - 1, u64::MAX]
}

// ---------------------------------------------------------------------------------------------
// Family D: synthetic linker data behind AT_PHDR

pub struct Window {
    pub(crate) base: u64,
    pub(crate) image: Vec<u8>,
    fields: Vec<(String, usize)>, // (name, offset) of every 8-byte field
}

const PH: usize = 0x100;
const DY: usize = 0x400;
const RD: usize = 0x600;
const LM: usize = 0x700;
const ST: usize = 0x900;

fn build_window(base: u64) -> Window {
    let mut img = vec![0u8; 0x2000];
    let mut fields = Vec::new();
    let mut put = |img: &mut Vec<u8>, name: &str, off: usize, v: u64, fields: &mut Vec<(String, usize)>| {
        img[off..off + 8].copy_from_slice(&v.to_le_bytes());
        fields.push((name.to_string(), off));
    };
    // two Elf64_Phdr: PT_LOAD (offset 0, vaddr 0) and PT_DYNAMIC (vaddr DY)
    let ph = |img: &mut Vec<u8>, i: usize, ty: u32, flags: u32, off: u64, vaddr: u64, filesz: u64, fields: &mut Vec<(String, usize)>| {
        let o = PH + i * 56;
        let tf = (ty as u64) | ((flags as u64) << 32);
        img[o..o + 8].copy_from_slice(&tf.to_le_bytes());
        fields.push((format!("phdr{i}.p_type+flags"), o));
        for (k, (n, v)) in [("p_offset", off), ("p_vaddr", vaddr), ("p_paddr", vaddr), ("p_filesz", filesz), ("p_memsz", filesz), ("p_align", 0x1000)].iter().enumerate() {
            let fo = o + 8 + 8 * k;
            img[fo..fo + 8].copy_from_slice(&v.to_le_bytes());
            fields.push((format!("phdr{i}.{n}"), fo));
        }
    };
    ph(&mut img, 0, 1, 5, 0, 0, 0x2000, &mut fields);
    ph(&mut img, 1, 2, 6, DY as u64, DY as u64, 0x40, &mut fields);
    // dynamic: DT_NEEDED(1) x, DT_DEBUG(21) -> r_debug, DT_STRTAB(5), DT_NULL
    let dyns: [(u64, u64); 4] = [(1, 1), (21, base + RD as u64), (5, base + ST as u64), (0, 0)];
    for (i, (t, v)) in dyns.iter().enumerate() {
        put(&mut img, &format!("dyn{i}.d_tag"), DY + 16 * i, *t, &mut fields);
        put(&mut img, &format!("dyn{i}.d_val"), DY + 16 * i + 8, *v, &mut fields);
    }
    // r_debug { int r_version; pad; r_map; r_brk; int r_state; pad; r_ldbase }
    put(&mut img, "r_debug.r_version", RD, 1, &mut fields);
    put(&mut img, "r_debug.r_map", RD + 8, base + LM as u64, &mut fields);
    put(&mut img, "r_debug.r_brk", RD + 16, base + 0x50, &mut fields);
    put(&mut img, "r_debug.r_state", RD + 24, 0, &mut fields);
    put(&mut img, "r_debug.r_ldbase", RD + 32, base, &mut fields);
    // three link_map entries { l_addr, l_name, l_ld, l_next, l_prev }
    for i in 0..3usize {
        let o = LM + 0x40 * i;
        put(&mut img, &format!("link_map{i}.l_addr"), o, base + 0x1000 * i as u64, &mut fields);
        put(&mut img, &format!("link_map{i}.l_name"), o + 8, base + (ST + 0x20 * i) as u64, &mut fields);
        put(&mut img, &format!("link_map{i}.l_ld"), o + 16, base + DY as u64, &mut fields);
        put(&mut img, &format!("link_map{i}.l_next"), o + 24, if i < 2 { base + (LM + 0x40 * (i + 1)) as u64 } else { 0 }, &mut fields);
        put(&mut img, &format!("link_map{i}.l_prev"), o + 32, if i > 0 { base + (LM + 0x40 * (i - 1)) as u64 } else { 0 }, &mut fields);
    }
    for (i, s) in ["", "/lib/libone.so", "/lib/libtwo.so.2"].iter().enumerate() {
        img[ST + 0x20 * i..ST + 0x20 * i + s.len()].copy_from_slice(s.as_bytes());
    }
    Window { base, image: img, fields }
}

fn boundary_values(base: u64) -> Vec<u64> {
    let end = base + 0x2000;
    vec![0, 1, 2, 7, 8, 0xffff, 0x1_0000, 0x7fff_ffff, 0xffff_ffff, 1 << 32, base, base + 1, end - 8, end - 1, end, end + 8, (1 << 47) - 1, 1 << 63, u64::MAX - 4095, u64::MAX - 55, u64::MAX - 7, u64::MAX]
}

// ---------------------------------------------------------------------------------------------

#[derive(Clone, Debug)]
pub enum Case {
    /// crash context registers + option bits (1 sanitize, 2 limit, 4 skip)
    Ctx { sp: usize, ip: usize, opts: u8 },
    /// a spin thread whose live rsp is hostile
    /// `crowd`: that many block threads are created first, so the spin thread sits at a late list position
    LiveSp { sp: usize, opts: u8, crowd: usize },
    /// direct auxv values: indices into small alphabets
    Auxv { phnum: usize, phdr: usize, gate: usize, entry: usize },
    /// one mutated 8-byte field of the synthetic linker data (field index, value index), or a chain shape
    Linker { field: usize, value: usize },
    LinkerShape { shape: usize },
    /// mapping living under /dev
    DevMapping { which: usize },
    /// hostile thread name bytes on thread `t`
    ThreadName { name: usize, t: usize },
    /// caller configuration extremes
    Config { which: usize },
    /// every libc call of the baseline trace x alternative
    Libc { key: String, alt: Alt },
    /// crash context whose instruction pointer lies `off` bytes into the inaccessible anonymous page that directly
    /// follows a file-backed executable mapping (what the linker's reserved range looks like)
    CtxAfterModule { off: usize, opts: u8 },
    /// the file behind the dumper's keyed open() has hostile content (redirected at the libc boundary)
    ProcContent { key: String, content: usize },
    /// the target is SIGKILLed just before the dumper's keyed libc call
    Killed { key: String, n: usize },
    /// mutated ELF image at the start of a file mapping (field index in the builder's table, value index)
    ElfInMemory { image: usize, field: usize, value: usize },
}

impl Case {
    pub fn to_json(&self) -> Value {
        match self {
            Case::Ctx { sp, ip, opts } => json!({"family": "ctx", "sp": sp, "ip": ip, "opts": opts}),
            Case::LiveSp { sp, opts, crowd } => json!({"family": "live-sp", "sp": sp, "opts": opts, "crowd": crowd}),
            Case::Auxv { phnum, phdr, gate, entry } => json!({"family": "auxv", "phnum": phnum, "phdr": phdr, "gate": gate, "entry": entry}),
            Case::Linker { field, value } => json!({"family": "linker", "field": field, "value": value}),
            Case::LinkerShape { shape } => json!({"family": "linker-shape", "shape": shape}),
            Case::DevMapping { which } => json!({"family": "dev-mapping", "which": which}),
            Case::ThreadName { name, t } => json!({"family": "thread-name", "name": name, "t": t}),
            Case::Config { which } => json!({"family": "config", "which": which}),
            Case::Libc { key, alt } => json!({"family": "libc", "key": key, "alt": format!("{alt:?}")}),
            Case::Killed { key, n } => json!({"family": "killed", "key": key, "n": n}),
            Case::CtxAfterModule { off, opts } => json!({"family": "ctx-after-module", "off": off, "opts": opts}),
            Case::ProcContent { key, content } => json!({"family": "file-content", "key": key, "content": content}),
            Case::ElfInMemory { image, field, value } => json!({"family": "elf-in-memory", "image": image, "field": field, "value": value}),
        }
    }
    pub fn from_json(v: &Value) -> Option<Case> {
        let g = |k: &str| v.get(k).and_then(|x| x.as_u64()).map(|x| x as usize);
        Some(match v.get("family")?.as_str()? {
            "ctx" => Case::Ctx { sp: g("sp")?, ip: g("ip")?, opts: g("opts")? as u8 },
            "live-sp" => Case::LiveSp { sp: g("sp")?, opts: g("opts")? as u8, crowd: g("crowd").unwrap_or(0) },
            "auxv" => Case::Auxv { phnum: g("phnum")?, phdr: g("phdr")?, gate: g("gate")?, entry: g("entry")? },
            "linker" => Case::Linker { field: g("field")?, value: g("value")? },
            "linker-shape" => Case::LinkerShape { shape: g("shape")? },
            "dev-mapping" => Case::DevMapping { which: g("which")? },
            "thread-name" => Case::ThreadName { name: g("name")?, t: g("t")? },
            "config" => Case::Config { which: g("which")? },
            "elf-in-memory" => Case::ElfInMemory { image: g("image")?, field: g("field")?, value: g("value")? },
            "file-content" => Case::ProcContent { key: v.get("key")?.as_str()?.to_string(), content: g("content")? },
            "ctx-after-module" => Case::CtxAfterModule { off: g("off")?, opts: g("opts")? as u8 },
            "killed" => Case::Killed { key: v.get("key")?.as_str()?.to_string(), n: g("n")? },
            "libc" => {
                let alt = v.get("alt")?.as_str()?;
                let a = if let Some(x) = alt.strip_prefix("Errno(") { Alt::Errno(x.trim_end_matches(')').parse().ok()?) } else if let Some(x) = alt.strip_prefix("Short(") { Alt::Short(x.trim_end_matches(')').parse().ok()?) } else { return None };
                Case::Libc { key: v.get("key")?.as_str()?.to_string(), alt: a }
            }
            _ => return None,
        })
    }
    pub fn family(&self) -> &'static str {
        match self {
            Case::Ctx { .. } => "ctx",
            Case::LiveSp { .. } => "live-sp",
            Case::Auxv { .. } => "auxv",
            Case::Linker { .. } | Case::LinkerShape { .. } => "linker",
            Case::DevMapping { .. } => "dev-mapping",
            Case::ThreadName { .. } => "thread-name",
            Case::Config { .. } => "config",
            Case::Libc { .. } => "libc",
            Case::Killed { .. } => "killed",
            Case::CtxAfterModule { .. } => "ctx",
            Case::ProcContent { .. } => "file-content",
            Case::ElfInMemory { .. } => "elf-in-memory",
        }
    }
}

const THREAD_NAMES: [&[u8]; 12] = [b"\n", b"a", b"aaaaaaaaaaaaaaa", b"\xc3\xa9", b"\xff", b"a\xffb", b" \t", b"a b", b"\xf0\x9f\xa6\x80", b"\xed\xa0\x80", b"%s%n", b"\x01\x02\x7f"];
const N_CONFIG: usize = 26;
const N_DEV: usize = 10;
const N_SHAPES: usize = 14;

/// A long-lived target that can host most families.
pub struct Host {
    pub(crate) b: Built,
    pub(crate) addr: Addr,
    pub(crate) hole: u64,
    pub(crate) win: Window,
}

pub(crate) const N_LINKER_SHAPES: usize = N_SHAPES;

/// Options that make the writer read the synthetic linker window instead of the target's own data.
pub(crate) fn window_opts(h: &Host) -> DumpOpts {
    let mut o = DumpOpts::default();
    o.direct_auxv = Some((2, h.win.base + PH as u64, h.addr.auxv.2, h.addr.auxv.3));
    o
}

pub(crate) fn make_host() -> Host {
    let mut shape = Shape::threads(3);
    shape.patterns.push((2, "hole".into(), "rw".into())); // [0] window for synthetic linker data (reads past its end are short)
    shape.patterns.push((1, "hole".into(), "rw".into())); // [1] app memory
    let mut b = build(&shape);
    let addr = env_of(&mut b);
    let hole = b.pattern_addrs[0] + 0x2000; // the unmapped page after the window
    let win = build_window(b.pattern_addrs[0]);
    b.p.write(win.base, &win.image);
    Host { b, addr, hole, win }
}


/// The synthetic linker window rewritten into chain shape `shape`.
pub(crate) fn linker_shape_image(h: &Host, shape: usize) -> (Vec<u8>, &'static str) {
    let base = h.win.base;
            let mut img = h.win.image.clone();
            let lm = |i: usize| base + (LM + 0x40 * i) as u64;
            let set = |img: &mut Vec<u8>, off: usize, v: u64| img[off..off + 8].copy_from_slice(&v.to_le_bytes());
            let what = match shape {
                0 => { set(&mut img, RD + 8, 0); "empty chain" }
                1 => { set(&mut img, LM + 24, 0); "one object" }
                2 => { set(&mut img, LM + 24, lm(0)); "link_map whose l_next points to itself" }
                3 => { set(&mut img, LM + 0x40 + 24, lm(0)); "two-object cycle" }
                4 => { set(&mut img, LM + 0x80 + 24, lm(1)); "cycle back into the middle" }
                5 => { set(&mut img, LM + 8, h.hole); "l_name unmapped" }
                6 => { set(&mut img, LM + 8, h.hole - 100); "l_name within 256 bytes of the end of readable memory" }
                7 => { img[ST..ST + 4].copy_from_slice(b"\xff\xfe\xfd\x00"); "l_name not UTF-8" }
                8 => { for b in img[ST..].iter_mut() { *b = b'x'; } "l_name unterminated up to the end of readable memory" }
                9 => { for i in 0..((0x2000 - DY) / 16) { set(&mut img, DY + 16 * i, 1); } "dynamic section without DT_NULL up to the end of readable memory" }
                10 => { set(&mut img, RD + 8, h.hole - 16); "r_map pointing 16 bytes before unreadable memory" }
                12 => {
                    // PT_DYNAMIC's p_vaddr: the section starts 88 bytes (five and a half entries) before unreadable memory
                    set(&mut img, PH + 56 + 16, 0x2000 - 88);
                    for i in 0..11 { set(&mut img, 0x2000 - 88 + 8 * i, 1); }
                    "dynamic section without DT_NULL that runs into unreadable memory in the middle of an entry"
                }
                13 => { set(&mut img, PH + 56 + 16, 0x2000 - 8); set(&mut img, 0x2000 - 8, 1); "dynamic section of half an entry before unreadable memory" }
                _ => { set(&mut img, DY + 24, h.hole - 8); "r_debug 8 bytes before unreadable memory" }
            };
    (img, what)
}

fn opts_bits(o: &mut DumpOpts, bits: u8, h: &Host) {
    if bits & 1 != 0 {
        o.sanitize = true;
    }
    if bits & 2 != 0 {
        o.size_limit = Some(1);
    }
    if bits & 4 != 0 {
        o.skip_unref = true;
        o.principal = Some(h.b.p.threads[0].page as usize + 8);
    }
}

fn run_on_host(h: &mut Host, c: &Case) -> Verdict {
    let pid = h.b.p.pid;
    match c {
        Case::Ctx { sp, ip, opts } => {
            let sps = sp_alphabet(&h.addr, h.hole);
            let ips = ip_alphabet(&h.addr, h.hole);
            let mut o = DumpOpts::default();
            o.crash = Some(CrashSpec { tid: pid, signo: 11, code: 1, addr: 0, devs: vec![(DIM_RSP, sps[*sp]), (DIM_RIP, ips[*ip])] });
            opts_bits(&mut o, *opts, h);
            total_dump(&h.b.p, &o, vec![], &format!("crash context rsp={:#x} rip={:#x} opts={opts}", sps[*sp], ips[*ip]))
        }
        Case::Auxv { phnum, phdr, gate, entry } => {
            let a = h.addr.auxv;
            let phnums = [a.0, 0, 1, 2, 100_000, 1 << 32, 1 << 60, u64::MAX];
            let phdrs = [a.1, 0, a.1 + 1, h.hole, h.hole - 56, h.hole - 57, u64::MAX - 55, u64::MAX];
            let gates = [a.2, 0, 0x1234, h.hole];
            let entries = [a.3, 0, 0x1234, u64::MAX];
            let mut o = DumpOpts::default();
            o.direct_auxv = Some((phnums[*phnum], phdrs[*phdr], gates[*gate], entries[*entry]));
            total_dump(&h.b.p, &o, vec![], &format!("direct auxv phnum={:#x} phdr={:#x} gate={:#x} entry={:#x}", phnums[*phnum], phdrs[*phdr], gates[*gate], entries[*entry]))
        }
        Case::Linker { field, value } => {
            let vals = boundary_values(h.win.base);
            let (name, off) = h.win.fields[*field].clone();
            let mut img = h.win.image.clone();
            img[off..off + 8].copy_from_slice(&vals[*value].to_le_bytes());
            h.b.p.write(h.win.base, &img);
            let mut o = DumpOpts::default();
            o.direct_auxv = Some((2, h.win.base + PH as u64, h.addr.auxv.2, h.addr.auxv.3));
            let v = total_dump(&h.b.p, &o, vec![], &format!("linker data with {name} = {:#x}", vals[*value]));
            h.b.p.write(h.win.base, &h.win.image);
            v
        }
        Case::LinkerShape { shape } => {
            let base = h.win.base;
            let (img, what) = linker_shape_image(h, *shape);
            h.b.p.write(base, &img);
            let mut o = DumpOpts::default();
            o.direct_auxv = Some((2, base + PH as u64, h.addr.auxv.2, h.addr.auxv.3));
            let v = total_dump(&h.b.p, &o, vec![], &format!("linker chain shape: {what}"));
            h.b.p.write(base, &h.win.image);
            v
        }
        Case::Config { which } => {
            let mut o = DumpOpts::default();
            let app = h.b.pattern_addrs[1] as usize;
            let what: String = match which {
                0 => { o.app_memory.push((0, 1)); "app memory ptr 0".into() }
                1 => { o.app_memory.push((app, 0)); "app memory length 0".into() }
                2 => { o.app_memory.push((app, 1 << 40)); "app memory length 2^40".into() }
                3 => { o.app_memory.push((app, usize::MAX)); "app memory length MAX".into() }
                4 => { o.app_memory.push((usize::MAX - 15, 16)); "app memory at MAX-15".into() }
                5 => { o.app_memory.push((usize::MAX, usize::MAX)); "app memory (MAX, MAX)".into() }
                6 => { o.app_memory.push((h.hole as usize - 8, 16)); "app memory crossing into a hole".into() }
                7 => { o.user_mappings.push(UserMap { start: usize::MAX - 4095, size: 8192, name: "/x/wrap.so".into(), id: vec![1; 16] }); "user mapping whose start+size overflows".into() }
                8 => { o.user_mappings.push(UserMap { start: 0, size: usize::MAX, name: "/dev/zero".into(), id: vec![] }); "user mapping covering everything, named under /dev, empty id".into() }
                9 => { o.user_mappings.push(UserMap { start: app, size: 0, name: String::new(), id: vec![0; 40] }); "user mapping of size 0 with an empty name".into() }
                10 => { o.skip_unref = true; o.principal = Some(0); "principal address 0".into() }
                11 => { o.skip_unref = true; o.principal = Some(usize::MAX); "principal address MAX".into() }
                12 => { o.skip_unref = true; "skip unreferenced without a principal address".into() }
                13 => { o.size_limit = Some(0); "size limit 0".into() }
                14 => { o.size_limit = Some(u64::MAX); "size limit MAX".into() }
                15 => { o.stop_timeout_ms = Some(0); "stop timeout 0".into() }
                16 => { o.stop_timeout_ms = Some(u64::MAX); "stop timeout Duration::MAX".into() }
                17 => { o.blamed = Some(h.b.p.threads[1].tid); "blamed = another thread".into() }
                18 => { o.blamed = Some(std::process::id() as i32); "blamed = the checker itself".into() }
                19 => { o.blamed = Some(0x7fff_fff0); "blamed = a tid that does not exist".into() }
                20 => { o.blamed = Some(0x7fff_fff0); o.crash = Some(CrashSpec { tid: 0x7fff_fff0, signo: 11, code: 0, addr: 0, devs: vec![] }); "blamed = a tid that does not exist, with crash context".into() }
                21 => { o.crash = Some(CrashSpec { tid: pid, signo: u32::MAX, code: i32::MIN, addr: u64::MAX, devs: vec![(DIM_RSP, h.addr.main_stack.1 - 0x1000)] }); "siginfo extremes".into() }
                22 => { o.sanitize = true; o.size_limit = Some(1); o.skip_unref = true; o.principal = Some(h.addr.text.0 as usize); o.app_memory.push((app, 4096)); "everything on".into() }
                23 => { o.app_memory = (0..200).map(|i| (app + i * 8, 8)).collect(); "200 app regions".into() }
                24 => { o.user_mappings = (0..50).map(|i| UserMap { start: 0x1000 * i, size: 0x1000, name: format!("/u/{i}.so.{i}"), id: vec![i as u8; 20] }).collect(); "50 user mappings".into() }
                _ => { o.direct_auxv = Some((0, 0, 0, 0)); "direct auxv all zero".into() }
            };
            total_dump(&h.b.p, &o, vec![], &format!("configuration: {what}"))
        }
        Case::Libc { key, alt } => total_dump(&h.b.p, &DumpOpts::default(), vec![(key.clone(), alt.clone())], &format!("libc answer {key} -> {alt:?}")),
        Case::ProcContent { key, content } => {
            let dir = "/verif/target/tmp";
            let _ = std::fs::create_dir_all(dir);
            let path = format!("{dir}/hostile_{}_{:?}", std::process::id(), std::thread::current().id()).replace(['(', ')'], "");
            let (bytes, what): (Vec<u8>, &str) = match content {
                0 => (vec![], "an empty file"),
                1 => (b"x".to_vec(), "one byte"),
                2 => (b"\n\n\n".to_vec(), "newlines only"),
                3 => ((0..4096u32).map(|i| (i.wrapping_mul(2654435761) >> 13) as u8).collect(), "4 KiB of binary noise"),
                4 => (vec![b'7'; 200_000], "one 200 000-character line without a newline"),
                5 => (b"Name:\t\nTgid:\t-1\nPPid:\t99999999999999999999\nPid:\nprocessor\t: 4294967296\nvendor_id\t:\n00000000-ffffffffffffffff rwxp ffffffffffffffff ff:ff 18446744073709551615 /x\n".to_vec(), "well-formed looking lines with out-of-range numbers"),
                _ => ((0..70_000u32).map(|i| if i % 61 == 60 { b'\n' } else { b'a' + (i % 26) as u8 }).collect(), "70 000 bytes of short text lines"),
            };
            let _ = std::fs::write(&path, &bytes);
            let v = total_dump(&h.b.p, &DumpOpts { stop_timeout_ms: Some(300), ..Default::default() }, vec![(key.clone(), Alt::Redirect(path.clone()))], &format!("{key} redirected to {what}"));
            let _ = std::fs::remove_file(&path);
            v
        }
        _ => Verdict { kind: 0, fails: vec![("harness".into(), "case routed to the wrong runner".into())], structure: vec![] },
    }
}

/// Cases that need a target of their own.
pub fn run_standalone(c: &Case) -> Verdict {
    match c {
        Case::LiveSp { sp, opts, crowd } => {
            let mut h = make_host();
            for _ in 0..*crowd {
                h.b.p.add_thread(Kind::Block);
            }
            let sps = sp_alphabet(&h.addr, h.hole);
            let v = sps[*sp];
            if v == 0 {
                return Verdict { kind: 0, fails: vec![], structure: vec![] }; // rsp 0 = "skip this thread" (C04)
            }
            let t = h.b.p.mkthread(Kind::Spin);
            h.b.p.set_gpr(t, RSP, v);
            h.b.p.start(t);
            h.b.p.quiesce();
            let mut o = DumpOpts::default();
            opts_bits(&mut o, *opts, &h);
            total_dump(&h.b.p, &o, vec![], &format!("live thread with rsp={v:#x} opts={opts}"))
        }
        Case::CtxAfterModule { off, opts } => {
            let mut h = make_host();
            // a mapfile'd library sits inside a PROT_NONE reservation: an inaccessible anonymous page follows it directly
            let lib = h.b.p.mapfile(format!("{FIX}/libfix_sha1.so").as_bytes(), 0, 8192, "rx").unwrap_or(0);
            h.b.p.quiesce();
            if lib == 0 {
                return Verdict { kind: 0, fails: vec![], structure: vec![] };
            }
            let ip = lib + 8192 + *off as u64;
            let mut o = DumpOpts::default();
            o.crash = Some(CrashSpec { tid: h.b.p.pid, signo: 11, code: 1, addr: ip, devs: vec![(DIM_RSP, h.addr.main_stack.1 - 0x1800), (DIM_RIP, ip)] });
            opts_bits(&mut o, *opts, &h);
            total_dump(&h.b.p, &o, vec![], &format!("crash ip {off} bytes into the inaccessible page behind a mapped library"))
        }
        Case::Killed { key, n } => {
            let b = build(&Shape::threads(*n));
            let pid = b.p.pid;
            let mut before: HashMap<String, crate::env::Callback> = HashMap::new();
            before.insert(key.clone(), Box::new(move |_| unsafe {
                libc::syscall(libc::SYS_kill, pid, libc::SIGKILL);
                // let the kernel tear the threads down before the dumper's call proceeds
                std::thread::sleep(std::time::Duration::from_millis(2));
            }));
            // a dead target is never seen stopped: the writer waits for the caller's stop timeout (bounded wait)
            let o = DumpOpts { stop_timeout_ms: Some(200), ..Default::default() };
            let out = env_dump(&b.p, &EnvSpec { opts: o, ..Default::default() }, before, None);
            let mut fails = Vec::new();
            let kind = match &out.result {
                DumpResult::Ok(_) => 0,
                DumpResult::Err(_) => 1,
                DumpResult::Panic(m) => {
                    fails.push((panic_key(m), format!("target killed before {key}: dump panicked: {m}")));
                    2
                }
            };
            Verdict { kind, fails, structure: structure_of(&out.result) }
        }
        Case::ThreadName { name, t } => {
            let mut shape = Shape::threads(3);
            shape.names = vec![None, None, None];
            shape.names[*t] = Some(THREAD_NAMES[*name].to_vec());
            let b = build(&shape);
            total_dump(&b.p, &DumpOpts::default(), vec![], &format!("thread {t} named {:?}", String::from_utf8_lossy(THREAD_NAMES[*name])))
        }
        Case::DevMapping { which } => {
            let mut p = Puppet::spawn();
            p.add_thread(Kind::Block);
            let shm = |name: &str, content: &[u8]| -> Vec<u8> {
                // per worker thread: concurrent cases must not unlink each other's files
                let path = format!("/dev/shm/mdv_{}_{:?}_{name}", std::process::id(), std::thread::current().id()).replace(['(', ')'], "");
                let _ = std::fs::write(&path, content);
                path.into_bytes()
            };
            let elf = std::fs::read(format!("{FIX}/libfix_sha1.so")).unwrap_or_default();
            let what = match which {
                0 => { let f = shm("elf", &elf); let _ = p.mapfile(&f, 0, 8192, "rx"); "valid ELF under /dev/shm, executable mapping" }
                1 => { let f = shm("elf2", &elf); let _ = p.mapfile(&f, 0, 8192, "r"); "valid ELF under /dev/shm, read-only mapping" }
                2 => { let f = shm("plain", &vec![b'x'; 16384]); let _ = p.mapfile(&f, 0, 8192, "rx"); "non-ELF file under /dev/shm, executable" }
                3 => { let f = shm("plain2", &vec![b'y'; 16384]); let _ = p.mapfile(&f, 4096, 8192, "rx"); "non-ELF file under /dev/shm at offset 4096, executable" }
                4 => { let mut t = elf[..100.min(elf.len())].to_vec(); t.resize(8292, 0); let f = shm("trunc", &t); let _ = p.mapfile(&f, 0, 8192, "r"); "truncated ELF under /dev/shm" }
                5 => { let _ = p.cmd("shm 8192 rw"); "shared anonymous mapping (/dev/zero (deleted))" }
                6 => { let _ = p.cmd("shm 8192 rx"); "executable shared anonymous mapping" }
                7 => { let _ = p.mapfile(b"/dev/zero", 0, 8192, "rw"); "private mapping of /dev/zero" }
                8 => { let _ = p.mapfile(b"/dev/zero", 0, 8192, "rx"); "private executable mapping of /dev/zero" }
                _ => { let f = shm("del", &vec![b'z'; 16384]); let _ = p.mapfile(&f, 0, 8192, "rx"); let _ = std::fs::remove_file(String::from_utf8_lossy(&f).as_ref()); "deleted file under /dev/shm" }
            };
            p.quiesce();
            let v = total_dump(&p, &DumpOpts::default(), vec![], &format!("target maps: {what}"));
            drop(p);
            if let Ok(rd) = std::fs::read_dir("/dev/shm") {
                for e in rd.flatten() {
                    if e.file_name().to_string_lossy().starts_with(&format!("mdv_{}_{:?}_", std::process::id(), std::thread::current().id()).replace(['(', ')'], "")) {
                        let _ = std::fs::remove_file(e.path());
                    }
                }
            }
            v
        }
        Case::ElfInMemory { image, field, value } => crate::checks::c14e::c02_elf_in_memory(*image, *field, *value),
        other => {
            let mut h = make_host();
            run_on_host(&mut h, other)
        }
    }
}

fn is_host_case(c: &Case) -> bool {
    matches!(c, Case::Ctx { .. } | Case::Auxv { .. } | Case::Linker { .. } | Case::LinkerShape { .. } | Case::Config { .. } | Case::Libc { .. } | Case::ProcContent { .. })
}

// ---------------------------------------------------------------------------------------------
// in-process family: mapping names

fn name_family(rep: &mut Report, thorough: bool) {
    use minidump_writer::maps_reader::MappingInfo;
    let comps: [&str; 13] = ["", "1", "12", "a", "1a", "a1", "1a2", "\u{e9}", "1\u{e9}", "\u{e9}1", "1\u{e9}2", "\u{fffd}", "99999999999"];
    let depth = if thorough { 5 } else { 4 };
    let mut idx = vec![0usize; depth];
    let mut n = 0u64;
    loop {
        for len in 1..=depth {
            if idx[len..].iter().any(|x| *x != 0) {
                continue;
            }
            let name = format!("/x/lib.so.{}", idx[..len].iter().map(|i| comps[*i]).collect::<Vec<_>>().join("."));
            for (soname, exec, off) in [(None, false, 0usize), (Some("libso.so.1".to_string()), true, 4096)] {
                let mut m = crate::idle::mapping(0x7000_0000, 0x2000, crate::idle::perms(true, false, exec), None);
                m.name = Some(name.clone().into());
                m.offset = off;
                n += 1;
                rep.evaluations += 1;
                if let Err(p) = guarded(|| MappingInfo::get_mapping_effective_path_name_and_version(&m, soname.clone()).map(|_| ())) {
                    rep.violation(&panic_key(&p), &format!("get_mapping_effective_path_name_and_version panicked on mapping name {name:?}: {p}"), json!({"family": "mapping-name", "name": name}));
                }
            }
        }
        // next tuple
        let mut i = 0;
        loop {
            if i == depth {
                rep.set("mapping_names_checked", json!(n));
                return;
            }
            idx[i] += 1;
            if idx[i] < comps.len() {
                break;
            }
            idx[i] = 0;
            i += 1;
        }
    }
}

fn mapping_name_replay(name: &str, rep: &mut Report) {
    use minidump_writer::maps_reader::MappingInfo;
    let mut m = crate::idle::mapping(0x7000_0000, 0x2000, crate::idle::perms(true, false, false), None);
    m.name = Some(name.into());
    rep.evaluations += 1;
    if let Err(p) = guarded(|| MappingInfo::get_mapping_effective_path_name_and_version(&m, None).map(|_| ())) {
        rep.violation(&panic_key(&p), &format!("panicked on mapping name {name:?}: {p}"), json!({"family": "mapping-name", "name": name}));
    }
}

/// Every real-dump case of the hostile-world families, executed; shared with C01, which judges the
/// structure of the dumps that succeed.
pub fn run_real_cases(thorough: bool) -> Vec<(Case, Verdict)> {
    // build the case list
    let probe = make_host();
    let n_sp = sp_alphabet(&probe.addr, probe.hole).len();
    let n_ip = ip_alphabet(&probe.addr, probe.hole).len();
    let n_fields = probe.win.fields.len();
    let n_vals = boundary_values(probe.win.base).len();
    let base_trace = crate::envrun::baseline_trace(&probe.b.p, &DumpOpts::default());
    drop(probe);
    let mut cases: Vec<Case> = Vec::new();
    for sp in 0..n_sp {
        for ip in 0..n_ip {
            for opts in [0u8, 1, 7] {
                if !thorough && opts == 7 && sp % 3 != 0 {
                    continue;
                }
                cases.push(Case::Ctx { sp, ip, opts });
            }
        }
    }
    for sp in 0..n_sp {
        for opts in [0u8, 3] {
            cases.push(Case::LiveSp { sp, opts, crowd: 0 });
        }
        // the same hostile stack pointers on a thread at a list position >= 20 with the size limit engaged
        for opts in [2u8, 3, 6] {
            if thorough || opts != 6 {
                cases.push(Case::LiveSp { sp, opts, crowd: 21 });
            }
        }
    }
    for phnum in 0..8 {
        for phdr in 0..8 {
            for gate in 0..4 {
                for entry in 0..4 {
                    // quick: <=2 deviations; thorough: full product
                    let devs = [phnum, phdr, gate, entry].iter().filter(|x| **x != 0).count();
                    if thorough || devs <= 2 {
                        cases.push(Case::Auxv { phnum, phdr, gate, entry });
                    }
                }
            }
        }
    }
    for field in 0..n_fields {
        for value in 0..n_vals {
            cases.push(Case::Linker { field, value });
        }
    }
    for shape in 0..N_SHAPES {
        cases.push(Case::LinkerShape { shape });
    }
    for which in 0..N_DEV {
        cases.push(Case::DevMapping { which });
    }
    for name in 0..THREAD_NAMES.len() {
        for t in 0..3 {
            cases.push(Case::ThreadName { name, t });
        }
    }
    for which in 0..N_CONFIG {
        cases.push(Case::Config { which });
    }
    let mut seen = std::collections::HashSet::new();
    for c in &base_trace {
        if !seen.insert(c.key.clone()) || (c.key.starts_with("open:/proc/P/stat#") && c.key != "open:/proc/P/stat#0") {
            continue;
        }
        let k = c.key.as_str();
        let alts: Vec<Alt> = if k.starts_with("detach:") || k.starts_with("cont#") || k.starts_with("ptcont") {
            vec![]
        } else if k.starts_with("vmread#") || k.starts_with("pread#") {
            vec![Alt::Errno(libc::EFAULT), Alt::Errno(libc::ENOSYS), Alt::Short(1), Alt::Short(7)]
        } else if k.starts_with("wait:") {
            vec![Alt::Errno(libc::EINTR), Alt::Errno(libc::ECHILD)]
        } else if k.starts_with("open:") || k.starts_with("opendir:") {
            vec![Alt::Errno(libc::ENOENT), Alt::Errno(libc::EMFILE)]
        } else {
            vec![Alt::Errno(libc::EPERM), Alt::Errno(libc::ESRCH)]
        };
        for a in alts {
            cases.push(Case::Libc { key: c.key.clone(), alt: a });
        }
    }
    for off in [0usize, 1, 127, 128, 129, 255, 256, 2048, 4095] {
        for opts in [0u8, 1] {
            cases.push(Case::CtxAfterModule { off, opts });
        }
    }
    // hostile content behind every file the dumper opens
    let mut seen = std::collections::HashSet::new();
    for c in &base_trace {
        if !c.key.starts_with("open:") || !seen.insert(c.key.clone()) {
            continue;
        }
        // only files whose content the target or the host's administrator controls: command line,
        // environment, the saved auxiliary vector (PR_SET_MM_AUXV), release files, mapped files.  The
        // kernel-formatted files (stat, status, maps, limits, cpuinfo) cannot hold arbitrary bytes in
        // any real world; feeding them noise makes procfs-core's parser panic, which says nothing
        // about the writer under the property's quantifier.
        let k = c.key.as_str();
        let controllable = k.contains("/cmdline#") || k.contains("/environ#") || k.contains("/auxv#") || k.starts_with("open:/etc/") || !k.contains("/proc/");
        if !controllable {
            continue;
        }
        for content in 0..7 {
            if thorough || content != 6 {
                cases.push(Case::ProcContent { key: c.key.clone(), content });
            }
        }
    }
    // the target dies (SIGKILL) just before each keyed call of the baseline trace
    let mut seen = std::collections::HashSet::new();
    for c in &base_trace {
        if !seen.insert(c.key.clone()) || (c.key.starts_with("open:/proc/P/stat#") && c.key != "open:/proc/P/stat#0") {
            continue;
        }
        cases.push(Case::Killed { key: c.key.clone(), n: 3 });
    }
    if thorough {
        let h1 = build(&Shape::threads(1));
        let t1 = crate::envrun::baseline_trace(&h1.p, &DumpOpts::default());
        let mut seen = std::collections::HashSet::new();
        for c in &t1 {
            if seen.insert(c.key.clone()) && !(c.key.starts_with("open:/proc/P/stat#") && c.key != "open:/proc/P/stat#0") {
                cases.push(Case::Killed { key: c.key.clone(), n: 1 });
            }
        }
    }
    cases.extend(crate::checks::c14e::c02_cases(thorough));
    // host cases run in chunks on shared targets; the rest stand alone
    let (host_cases, solo): (Vec<Case>, Vec<Case>) = cases.iter().cloned().partition(is_host_case);
    let chunks: Vec<Vec<Case>> = host_cases.chunks(host_cases.len().div_ceil(16).max(1)).map(|c| c.to_vec()).collect();
    let host_results = par_map(&chunks, |_, chunk| {
        let mut h = make_host();
        let mut out = Vec::new();
        for c in chunk {
            crate::watch::begin(c.to_json());
            if !h.b.p.alive() {
                h = make_host();
            }
            h.b.p.quiesce();
            let v = run_on_host(&mut h, c);
            crate::watch::end();
            out.push((c.clone(), v));
        }
        out
    });
    let solo_results = par_map(&solo, |_, c| {
        crate::watch::begin(c.to_json());
        let v = run_standalone(c);
        crate::watch::end();
        (c.clone(), v)
    });
    host_results.into_iter().flatten().chain(solo_results).collect()
}

pub fn run(ctx: &Ctx, rep: &mut Report) {
    rep.rule = "families: crash-context rsp (27 values) x rip (24) x 3 option sets; live spin-thread rsp (27) x 2, and x 2..3 option sets at a list position >= 20 with the size limit engaged; direct auxv phnum(8) x phdr(8) x gate(4) x entry(4); synthetic linker data: every 8-byte field of 2 program headers, 4 dynamic entries, r_debug, 3 link_maps x 22 boundary values + 14 chain shapes; 10 kinds of /dev-backed mappings; 12 hostile thread names x 3 threads; 26 caller-configuration extremes; every libc call of the baseline trace x its alternatives (errno, 1-byte reads); mutated ELF images in a file mapping; 6 (7) hostile contents behind every file the dumper opens whose content the target or the host controls (command line, environment, saved auxv, release files, mapped files); mapping names lib.so.<up to 4(5) components over 13 letters> in-process. nontrivial = cases that deviate from the benign default".into();
    rep.assume("'bounded time' is checked as 20 s per dump on targets with a few MiB of readable memory");
    let thorough = ctx.tier.is_thorough();
    if let Some(case) = &ctx.replay {
        if case.get("family").and_then(|f| f.as_str()) == Some("mapping-name") {
            mapping_name_replay(case["name"].as_str().unwrap_or(""), rep);
            return;
        }
        let Some(c) = Case::from_json(case) else {
            rep.machinery("bad replay".into());
            return;
        };
        crate::watch::begin(c.to_json());
        let v = run_standalone(&c);
        crate::watch::end();
        rep.evaluations += 1;
        for (k, m) in v.fails {
            rep.violation(&k, &m, case.clone());
        }
        return;
    }
    // (the in-process name family makes no dump: nothing for another property's universal oracle to see)
    if !crate::checks::universal::IN_CROSS.load(std::sync::atomic::Ordering::SeqCst) {
        name_family(rep, thorough);
    }
    let all_results = run_real_cases(thorough);
    let mut per_family: HashMap<&'static str, [u64; 3]> = HashMap::new();
    for (c, v) in all_results {
        rep.evaluations += 1;
        rep.nontrivial += 1;
        per_family.entry(c.family()).or_insert([0; 3])[v.kind as usize] += 1;
        rep.outcome(mdv_core::fnv(format!("{}{}", c.family(), v.kind).as_bytes()));
        if rep.samples.len() < 6 && matches!(c, Case::Linker { .. } | Case::LinkerShape { .. } | Case::Libc { .. }) && v.kind == 1 {
            rep.sample(c.to_json());
        }
        for (k, m) in v.fails {
            rep.violation(&k, &m, c.to_json());
        }
    }
    let mut fam = serde_json::Map::new();
    for (f, k) in per_family {
        fam.insert(f.to_string(), json!({"ok": k[0], "err": k[1], "panic": k[2]}));
    }
    rep.set("outcomes_per_family", Value::Object(fam));
    rep.states = rep.evaluations;
    rep.transitions = rep.evaluations;
    rep.traces = rep.evaluations;
    rep.exhaustive = true;
}
