//! C19 — a writer can be reused: successive dumps are independent.
//!
//! SEQ over dump histories on ONE configured `MinidumpWriter`: every history of 2..depth steps,
//! each step = (target change in {none, thread added, thread exited, app region rewritten}, dump),
//! under each option set. Differential oracle: after every dump_k a FRESH identically configured
//! writer dumps the same quiescent target; the normalised decodings must be equal, and dump_k must
//! pass C01's structural validator.

use crate::checks::c01::{env_of, Env};
use crate::dump::{dump_with, make_writer, CrashSpec, DumpOpts, DumpResult, DIM_RIP, DIM_RSP};
use crate::puppet::Kind;
use crate::shapes::{build, par_map, Built, Shape};
use crate::Ctx;
use mdv_core::mdparse::{Dump, NormOpts};
use mdv_core::{json, Report, Value};

const CHANGES: [&str; 14] = ["none", "add-thread", "exit-thread", "rewrite-app-region", "aborted-dump-first", "reconfigure-app-memory", "reconfigure-crash-context", "reconfigure-user-mappings", "reconfigure-principal-mapping", "retarget-to-another-process", "target-killed-unreaped", "shrink-principal-mapping", "regrow-principal-mapping", "reconfigure-size-limit"];
const OPTSETS: [&str; 11] = ["plain", "crash-context", "app-memory", "skip-unreferenced", "size-limit", "all", "blamed-thread-that-may-exit", "skip-unreferenced-principal-in-data-region", "crash-context-ip-in-data-region", "size-limit-with-25-threads", "sanitize-only"];

fn opts(set: usize, b: &Built, env: &Env) -> DumpOpts {
    let mut o = DumpOpts::default();
    let crash = CrashSpec { tid: b.p.pid, signo: 11, code: 1, addr: 0x1234, devs: vec![(DIM_RSP, env.main_stack.1 - 0x1800), (DIM_RIP, env.text.0 + 0x40)] };
    let app = vec![(b.pattern_addrs[0] as usize + 8, 300usize), (b.pattern_addrs[0] as usize + 4096, 64)];
    match set {
        1 => o.crash = Some(crash),
        2 => o.app_memory = app,
        3 => {
            o.skip_unref = true;
            o.principal = Some(b.p.threads[0].page as usize + 16);
        }
        4 | 9 => o.size_limit = Some(1),
        5 => {
            o.crash = Some(crash);
            o.app_memory = app;
            o.skip_unref = true;
            o.principal = Some(b.p.threads[0].page as usize + 16);
            o.size_limit = Some(1);
            o.sanitize = true;
        }
        6 => o.blamed = Some(b.p.threads[1].tid),
        10 => o.sanitize = true,
        7 => {
            // the principal mapping is the 3-page data region; the extra spin thread's stack holds a pointer
            // into its LAST page (see run_history)
            o.skip_unref = true;
            o.principal = Some(b.pattern_addrs[0] as usize + 16);
        }
        _ => {}
    }
    o
}

fn first_difference(a: &Value, b: &Value) -> String {
    if let (Some(ao), Some(bo)) = (a.as_object(), b.as_object()) {
        for (k, va) in ao {
            if bo.get(k) != Some(va) {
                let sa = va.to_string();
                let sb = bo.get(k).map(|v| v.to_string()).unwrap_or_default();
                return format!("{k}: reused writer {} vs fresh writer {}", &sa[..sa.len().min(300)], &sb[..sb.len().min(300)]);
            }
        }
    }
    "differs".into()
}

fn first_diff_key(a: &Value, b: &Value) -> String {
    if let (Some(ao), Some(bo)) = (a.as_object(), b.as_object()) {
        for (k, va) in ao {
            if bo.get(k) != Some(va) {
                return k.clone();
            }
        }
    }
    "?".into()
}

pub struct Res {
    case: Value,
    fails: Vec<(String, String)>,
    dumps: u64,
    outcome: u64,
    machinery: Option<String>,
}

fn run_history(set: usize, hist: &[usize]) -> Res {
    let case = json!({"option_set": OPTSETS[set], "history": hist.iter().map(|c| CHANGES[*c]).collect::<Vec<_>>()});
    // option set 9: enough threads for the size limit to shorten the stacks of list positions >= 20
    let mut shape = Shape::threads(if set == 9 { 25 } else { 3 });
    shape.patterns.push((3, "hole".into(), "rw".into()));
    let mut b = build(&shape);
    let spin_tid: u64;
    // an extra spin thread on a dedicated stack that holds one pointer into the LAST page of the data region
    {
        use crate::puppet::RSP;
        let st = b.p.pattern(2, "hole", "rw");
        let t = b.p.mkthread(Kind::Spin);
        b.p.set_gpr(t, RSP, st + 0x7c0);
        spin_tid = b.p.start(t) as u64;
        b.p.write(st + 0x7c8, &(b.pattern_addrs[0] + 2 * 4096 + 0x40).to_le_bytes());
        b.p.quiesce();
    }
    let env = env_of(&mut b);
    let mut o = opts(set, &b, &env);
    // option set 8: the crash instruction pointer lies in the second page of a shared mapping of a file the
    // harness truncates (step 11) and re-extends (step 12): while the file is short, that page is listed in
    // the target's maps but cannot be read, so every request fails while copying the window around the ip
    struct Rm(Option<std::path::PathBuf>);
    impl Drop for Rm {
        fn drop(&mut self) {
            if let Some(p) = &self.0 {
                let _ = std::fs::remove_file(p);
            }
        }
    }
    let mut backing = Rm(None);
    if set == 8 {
        let path = std::path::PathBuf::from(format!("/dev/shm/mdv_c19_{}_{}", std::process::id(), b.p.pid));
        let mut content = vec![0u8; 8192];
        for (i, x) in content.iter_mut().enumerate() {
            *x = (i * 7 + 3) as u8;
        }
        if std::fs::write(&path, &content).is_err() {
            return Res { case, fails: vec![], dumps: 0, outcome: 9, machinery: Some("cannot create the backing file".into()) };
        }
        backing.0 = Some(path.clone());
        use std::os::unix::ffi::OsStrExt;
        match b.p.mapfile(path.as_os_str().as_bytes(), 0, 8192, "rws") {
            Ok(a) => {
                let ip = a + 4096 + 0x400; // the whole 256-byte window lies in the second page
                o.crash = Some(CrashSpec { tid: b.p.pid, signo: 7, code: 2, addr: ip, devs: vec![(DIM_RSP, env.main_stack.1 - 0x1800), (DIM_RIP, ip), (13, 0x5eed)] });
            }
            Err(e) => return Res { case, fails: vec![], dumps: 0, outcome: 9, machinery: Some(format!("mapfile: {e}")) },
        }
    }
    let mut reused = make_writer(b.p.pid, &o);
    let mut cfg_gen = 0usize;
    let mut dead = false;
    let mut fails = Vec::new();
    let mut dumps = 0;
    let mut sig = Vec::new();
    let mut gen = 0u8;
    for (k, ch) in hist.iter().enumerate() {
        match *ch {
            1 => {
                b.p.add_thread(Kind::Block);
            }
            2 => {
                // exit the most recently added live thread, but keep the first extra thread (its page is the principal mapping)
                if let Some(t) = (1..b.p.threads.len()).rev().find(|t| b.p.threads[*t].alive) {
                    b.p.exit_thread(t);
                }
            }
            3 => {
                gen += 1;
                let data: Vec<u8> = (0..4096 + 200).map(|i| (i as u8).wrapping_mul(gen).wrapping_add(gen)).collect();
                b.p.write(b.pattern_addrs[0], &data);
            }
            4 => {
                // a request on the same writer that is aborted by a hard error half-way through
                // (an unreadable application region), after which the caller repairs the configuration
                // the aborted request also asks for a (readable) region of its own that no later request has
                reused.app_memory.insert(0, minidump_writer::app_memory::AppMemory { ptr: b.pattern_addrs[0] as usize + 2000, length: 777 });
                reused.app_memory.push(minidump_writer::app_memory::AppMemory { ptr: 0x10, length: 64 });
                let mut sink = std::io::Cursor::new(Vec::new());
                let r = dump_with(&mut reused, &mut sink);
                // the caller takes back exactly the two regions it added (whatever the failed request left of the list)
                let own = b.pattern_addrs[0] as usize + 2000;
                reused.app_memory.retain(|a| !(a.ptr == 0x10 && a.length == 64) && !(a.ptr == own && a.length == 777));
                dumps += 1;
                if matches!(r, DumpResult::Ok(_)) {
                    return Res { case, fails, dumps, outcome: 9, machinery: Some("the dump with an unreadable app region did not fail".into()) };
                }
            }
            // the caller re-configures the writer between two requests: the next dump must be what a
            // fresh writer with the new configuration produces
            5 => {
                cfg_gen += 1;
                o.app_memory = vec![(b.pattern_addrs[0] as usize + 16 * cfg_gen, 100 + cfg_gen), (b.pattern_addrs[0] as usize + 8192, 32)];
                reused.set_app_memory(o.app_memory.iter().map(|(p, l)| minidump_writer::app_memory::AppMemory { ptr: *p, length: *l }).collect());
            }
            6 => {
                cfg_gen += 1;
                let tid = o.blamed.unwrap_or(b.p.pid);
                let c = CrashSpec { tid, signo: 7 + cfg_gen as u32, code: 0x100 + cfg_gen as i32, addr: 0x5000 + cfg_gen as u64, devs: vec![(DIM_RSP, env.main_stack.1 - 0x1800 - 64 * cfg_gen as u64), (DIM_RIP, env.text.0 + 0x40 + 8 * cfg_gen as u64), (13, 0xabc0 + cfg_gen as u64)] };
                reused.set_crash_context(crate::dump::crash_context_of(b.p.pid, &c));
                o.crash = Some(c);
            }
            7 => {
                cfg_gen += 1;
                o.user_mappings = vec![crate::dump::UserMap { start: 0x10_0000 * cfg_gen, size: 8192, name: format!("/user/gen{cfg_gen}.so"), id: vec![cfg_gen as u8; 16] }];
                reused.set_user_mapping_list(crate::dump::user_mapping_list_of(&o.user_mappings));
            }
            8 => {
                cfg_gen += 1;
                o.skip_unref = true;
                let t = &b.p.threads[cfg_gen % 2];
                o.principal = Some(t.page as usize + 16);
                reused.skip_stacks_if_mapping_unreferenced();
                reused.set_principal_mapping_address(t.page as usize + 16);
            }
            9 => {
                // the caller points the same writer at another process (public fields): only for the
                // option sets whose configuration does not hold addresses of the first target
                if set == 0 || set == 4 || set == 10 {
                    let b2 = build(&shape);
                    reused.process_id = b2.p.pid;
                    reused.blamed_thread = b2.p.pid;
                    b = b2;
                    o.blamed = None;
                }
            }
            13 => {
                // the caller changes the size limit between two requests: exceeded -> none -> far away -> exceeded
                let next = match o.size_limit {
                    Some(1) => None,
                    None => Some(1u64 << 40),
                    Some(_) => Some(1),
                };
                o.size_limit = next;
                reused.minidump_size_limit = next;
            }
            11 if set == 8 => {
                let _ = std::fs::OpenOptions::new().write(true).open(backing.0.as_ref().unwrap()).and_then(|f| f.set_len(4096));
            }
            12 if set == 8 => {
                let _ = std::fs::OpenOptions::new().write(true).open(backing.0.as_ref().unwrap()).and_then(|f| f.set_len(8192));
            }
            11 => {
                // the data region loses its last page (same start, smaller extent)
                let _ = b.p.cmd(&format!("mprotect {:#x} 4096 ---", b.pattern_addrs[0] + 2 * 4096));
            }
            12 => {
                // ... and gets it back (the kernel merges the pages into one mapping again)
                let _ = b.p.cmd(&format!("mprotect {:#x} 4096 rw", b.pattern_addrs[0] + 2 * 4096));
            }
            10 => {
                // the target dies and is not reaped: a zombie can still be "dumped" (no threads can be walked)
                unsafe {
                    libc::syscall(libc::SYS_kill, b.p.pid, libc::SIGKILL);
                }
                let dl = std::time::Instant::now() + std::time::Duration::from_secs(5);
                while std::time::Instant::now() < dl && !std::fs::read_to_string(format!("/proc/{}/stat", b.p.pid)).map(|s| s.rsplit(')').next().unwrap_or("").trim_start().starts_with('Z')).unwrap_or(true) {
                    std::thread::sleep(std::time::Duration::from_millis(1));
                }
                dead = true;
                // a dead target is never seen stopped: keep the (bounded) wait short for both writers
                reused.stop_timeout(std::time::Duration::from_millis(200));
                o.stop_timeout_ms = Some(200);
            }
            _ => {}
        }
        if !dead {
            b.p.quiesce();
        }
        // `o` is kept in step with every re-configuration of the reused writer, so the cross-check oracles
        // judge this request like the first request of a writer created with `o`
        crate::checks::universal::note_writer(b.p.pid, &o);
        let mut c1 = std::io::Cursor::new(Vec::new());
        let r1 = dump_with(&mut reused, &mut c1);
        // let every thread re-enter its blocking syscall before the reference dump
        if !dead {
            b.p.quiesce();
        }
        let mut fresh = make_writer(b.p.pid, &o);
        let mut c2 = std::io::Cursor::new(Vec::new());
        let r2 = dump_with(&mut fresh, &mut c2);
        dumps += 2;
        if std::env::var_os("MDV_DEBUG").is_some() {
            let d = |r: &DumpResult| match r {
                DumpResult::Ok(b) => format!("ok {} bytes", b.len()),
                o => format!("{o:?}"),
            };
            eprintln!("C19 set {set} step {k}: reused {} / fresh {}", d(&r1), d(&r2));
        }
        match (r1, r2) {
            (DumpResult::Ok(a), DumpResult::Ok(f)) => {
                let da = Dump::parse(&a);
                let df = Dump::parse(&f);
                for e in da.structural_errors() {
                    fails.push((format!("dump{k}/structure/{}", crate::shapes::classify(&e)), format!("dump #{k} of the reused writer: {e}")));
                }
                let n = NormOpts { mask_volatile: true };
                let mut na = da.normalized(&a, &n);
                let mut nf = df.normalized(&f, &n);
                // the spin thread is stopped somewhere in its loop: its instruction pointer (hence its context
                // hash) differs from dump to dump
                for v in [&mut na, &mut nf] {
                    if let Some(ts) = v.get_mut("threads").and_then(|t| t.as_array_mut()) {
                        for t in ts.iter_mut() {
                            if t.get("tid").and_then(|x| x.as_u64()) == Some(spin_tid) {
                                t["context"] = json!("masked (busy thread)");
                            }
                        }
                    }
                }
                sig.push(da.memory.len() as u8);
                sig.push(da.threads.len() as u8);
                if na != nf {
                    fails.push((format!("differs-from-fresh/{}", first_diff_key(&na, &nf)), format!("dump #{k} of the reused writer differs from a fresh writer's dump: {}", first_difference(&na, &nf))));
                    break;
                }
            }
            (DumpResult::Ok(_), other) | (other, DumpResult::Ok(_)) => {
                fails.push(("one-succeeds-one-fails".into(), format!("dump #{k}: reused and fresh writer disagree on success: {other:?}")));
                break;
            }
            (r1, r2) => {
                // both writers fail: equivalent as far as C19 goes; the rest of the history is moot
                let same = format!("{r1:?}").split('(').next().map(|s| s.to_string()) == format!("{r2:?}").split('(').next().map(|s| s.to_string());
                if !same {
                    fails.push(("fail-differently".into(), format!("dump #{k}: reused writer {r1:?}, fresh writer {r2:?}")));
                }
                if set == 8 && !dead {
                    continue; // a request that fails for both writers is part of this option set's histories
                }
                return Res { case, fails, dumps, outcome: 7, machinery: None };
            }
        }
    }
    Res { case, fails, dumps, outcome: mdv_core::fnv(&sig), machinery: None }
}

pub fn run(ctx: &Ctx, rep: &mut Report) {
    rep.rule = "SEQ: every history of 2..depth (quick 3, thorough 4..5) dump requests on one writer, each preceded by a step from {none, thread added, thread exited, app region rewritten, an aborted request, the writer re-configured (app memory / crash context / user mappings / principal mapping / size limit), re-targeted, the target killed, a mapping shrunk / regrown / truncated}, under 11 option sets; after every dump a fresh identically configured writer dumps the same quiescent target and the normalised decodings are compared. nontrivial = histories with at least one target change".into();
    rep.assume("two dumps of an unchanged quiescent puppet decode to the same normalised content (timestamp, /proc/cpuinfo and /proc/<pid>/status streams masked); verified by the option set 'plain' with history [none, none]");
    if let Some(case) = &ctx.replay {
        let set = OPTSETS.iter().position(|s| Some(*s) == case.get("option_set").and_then(|v| v.as_str())).unwrap_or(0);
        let hist: Vec<usize> = case.get("history").and_then(|h| h.as_array()).map(|a| a.iter().filter_map(|c| CHANGES.iter().position(|x| Some(*x) == c.as_str())).collect()).unwrap_or_default();
        let r = run_history(set, &hist);
        rep.evaluations += 1;
        for (k, m) in r.fails {
            rep.violation(&k, &m, case.clone());
        }
        if let Some(m) = r.machinery {
            rep.machinery(m);
        }
        return;
    }
    // as a host explorer for another property's universal oracle the quick tier stops at depth 2
    let in_cross = crate::checks::universal::IN_CROSS.load(std::sync::atomic::Ordering::SeqCst);
    let depth = if ctx.tier.is_thorough() { 4 } else if in_cross { 2 } else { 3 };
    let mut items: Vec<(usize, Vec<usize>)> = Vec::new();
    for set in 0..OPTSETS.len() {
        let mut hists: Vec<Vec<usize>> = vec![vec![]];
        for _ in 0..depth {
            let mut next = Vec::new();
            for h in &hists {
                for c in 0..CHANGES.len() {
                    // at most one re-configuration / retarget step per history (thorough: two in histories of <= 3 steps)
                    let specials = h.iter().filter(|x| **x >= 5 && **x <= 10).count();
                    if c >= 5 && c <= 10 && (specials >= 2 || (specials == 1 && !(ctx.tier.is_thorough() && h.len() < 3))) {
                        continue;
                    }
                    if c == 9 && !(set == 0 || set == 4 || set == 10) {
                        continue;
                    }
                    if h.contains(&10) {
                        continue; // nothing follows the death of the target
                    }
                    if c == 13 && set != 9 {
                        continue;
                    }
                    if set == 9 && !(c == 0 || c == 1 || c == 13) {
                        continue; // this option set is about the size limit changing between requests
                    }
                    if (c == 11 || c == 12) && !(set == 7 || set == 8) {
                        continue;
                    }
                    if (set == 7 || set == 8) && !(c == 0 || c == 11 || c == 12 || c == 1) {
                        continue; // this option set is about the principal mapping changing its extent
                    }
                    let mut h2 = h.clone();
                    h2.push(c);
                    next.push(h2);
                }
            }
            for h in &next {
                if h.len() >= 2 {
                    items.push((set, h.clone()));
                }
            }
            hists = next;
        }
        if ctx.tier.is_thorough() {
            // depth 5 over the two changes that matter most for leaked state
            for mask in 0..32u32 {
                let h: Vec<usize> = (0..5).map(|i| if mask & (1 << i) != 0 { 3 } else { 0 }).collect();
                items.push((set, h));
            }
        }
    }
    let results = par_map(&items, |_, (set, h)| run_history(*set, h));
    let mut dumps = 0;
    for r in results {
        rep.evaluations += 1;
        rep.states += 1;
        dumps += r.dumps;
        rep.outcome(r.outcome);
        let changes = r.case["history"].as_array().map(|a| a.iter().filter(|c| c.as_str() != Some("none")).count()).unwrap_or(0);
        if changes > 0 {
            rep.nontrivial += 1;
        }
        if rep.samples.len() < 2 && changes >= 2 {
            rep.sample(r.case.clone());
        }
        if let Some(m) = r.machinery {
            rep.machinery(m);
        }
        for (k, m) in r.fails {
            rep.violation(&k, &m, r.case.clone());
        }
    }
    rep.transitions = dumps;
    rep.traces = dumps;
    rep.set("depth", json!(depth));
    rep.set("dumps_executed", json!(dumps));
    rep.exhaustive = true;
}
