//! C03 — the target is left running and undisturbed.
//!
//! ENV explorer: every fault point of a dump (each destination call x {Err, panic}; a hard error
//! in the middle; every injectable libc answer; the StopProcess fail point) crossed with every
//! placement of <=1 (thorough <=2) signal events at the dumper's syscall boundaries. After dump()
//! returned or unwound: no thread is traced or stopped (within 10 s), every thread makes progress, every signal
//! that was sent is handled exactly once.

use crate::dest::Fault;
use crate::dump::{DumpOpts, DumpResult};
use crate::env::{Alt, Callback};
use crate::envrun::{env_dump, EnvOut, EnvSpec};
use crate::puppet::{Kind, Puppet};
use crate::shapes::par_map;
use crate::Ctx;
use mdv_core::{json, Report, Value};
use std::cell::RefCell;
use std::collections::HashMap;
use std::rc::Rc;

#[derive(Clone, Debug, PartialEq)]
pub enum FaultSpec {
    None,
    DestErr(usize),
    DestPanic(usize),
    BadAppRegion,
    Libc(String, Alt),
    StopFailpoint,
    /// StopProcess fail point on (so threads can run) and the spin threads in `mask` (bit i = thread
    /// index i) exit right before the attach of thread `at`
    ExitSubset(u32, usize),
}

#[derive(Clone, Debug, PartialEq)]
pub struct Event {
    /// placement key ("after-return" = after dump() came back)
    at: String,
    /// target thread index (0 main, 1.., or usize::MAX = process-directed)
    thread: usize,
    /// signal selector: 0 SIGUSR1, 1 SIGRTMIN, 2 SIGUSR2, 3 SIGRTMIN+1
    sig: usize,
}

#[derive(Clone, Debug)]
pub struct Case {
    n: usize,
    fault: FaultSpec,
    events: Vec<Event>,
}

impl Case {
    fn to_json(&self) -> Value {
        let f = match &self.fault {
            FaultSpec::None => json!("none"),
            FaultSpec::DestErr(k) => json!({"dest_err": k}),
            FaultSpec::DestPanic(k) => json!({"dest_panic": k}),
            FaultSpec::BadAppRegion => json!("bad_app_region"),
            FaultSpec::Libc(k, a) => json!({"libc": k, "alt": format!("{a:?}")}),
            FaultSpec::StopFailpoint => json!("stop_failpoint"),
            FaultSpec::ExitSubset(m, at) => json!({"exit_mask": m, "at": at}),
        };
        json!({"n": self.n, "fault": f, "events": self.events.iter().map(|e| json!([e.at, if e.thread == usize::MAX { -1 } else { e.thread as i64 }, e.sig])).collect::<Vec<_>>()})
    }
    fn from_json(v: &Value) -> Option<Case> {
        let f = v.get("fault")?;
        let fault = if f.as_str() == Some("none") {
            FaultSpec::None
        } else if f.as_str() == Some("bad_app_region") {
            FaultSpec::BadAppRegion
        } else if f.as_str() == Some("stop_failpoint") {
            FaultSpec::StopFailpoint
        } else if let Some(m) = f.get("exit_mask") {
            FaultSpec::ExitSubset(m.as_u64()? as u32, f.get("at")?.as_u64()? as usize)
        } else if let Some(k) = f.get("dest_err") {
            FaultSpec::DestErr(k.as_u64()? as usize)
        } else if let Some(k) = f.get("dest_panic") {
            FaultSpec::DestPanic(k.as_u64()? as usize)
        } else {
            let alt = f.get("alt")?.as_str()?;
            let a = if let Some(x) = alt.strip_prefix("Errno(") { Alt::Errno(x.trim_end_matches(')').parse().ok()?) } else if let Some(x) = alt.strip_prefix("Short(") { Alt::Short(x.trim_end_matches(')').parse().ok()?) } else { return None };
            FaultSpec::Libc(f.get("libc")?.as_str()?.to_string(), a)
        };
        let events = v.get("events")?.as_array()?.iter().filter_map(|e| Some(Event { at: e.get(0)?.as_str()?.to_string(), thread: { let t = e.get(1)?.as_i64()?; if t < 0 { usize::MAX } else { t as usize } }, sig: e.get(2)?.as_u64()? as usize })).collect();
        Some(Case { n: v.get("n")?.as_u64()? as usize, fault, events })
    }
}

static BROKEN: std::sync::atomic::AtomicUsize = std::sync::atomic::AtomicUsize::new(0);
static SKIPPED: std::sync::atomic::AtomicUsize = std::sync::atomic::AtomicUsize::new(0);

pub fn make_target(n: usize) -> Puppet {
    let mut p = Puppet::spawn();
    for i in 1..n {
        if n == 4 && i == 3 {
            // a sandbox-helper look-alike: a busy thread whose stack pointer is null; the writer
            // attaches to it, decides to skip it, and must let go of it again
            let t = p.mkthread(Kind::Spin);
            p.set_gpr(t, crate::puppet::RSP, 0);
            p.start(t);
            continue;
        }
        p.add_thread(if i % 2 == 1 { Kind::Block } else { Kind::Spin });
    }
    p.quiesce();
    p
}

fn signo(p: &Puppet, sel: usize) -> i32 {
    match sel {
        0 => libc::SIGUSR1,
        1 => p.sigrtmin,
        2 => libc::SIGUSR2,
        _ => p.sigrtmin + 1,
    }
}

fn tid_of(p: &Puppet, idx: usize) -> i32 {
    if idx == 0 {
        p.pid
    } else {
        p.threads[idx - 1].tid
    }
}

pub struct Outcome {
    /// the target changed shape (threads exited): do not reuse it
    pub respawn: bool,
    pub fails: Vec<(String, String)>,
    pub result_kind: u8,
    pub saw_non_sigstop_stop: bool,
    pub signals_sent: usize,
    pub fault_hit: bool,
}

pub fn run_case(p: &mut Puppet, c: &Case) -> Outcome {
    crate::watch::begin(c.to_json());
    let o = run_case_inner(p, c);
    crate::watch::end();
    o
}

fn run_case_inner(p: &mut Puppet, c: &Case) -> Outcome {
    let mut fails = Vec::new();
    let log_before = p.signal_log().len();
    let sent: Rc<RefCell<Vec<(i32, i32)>>> = Rc::new(RefCell::new(Vec::new())); // (tid or -1, signo)
    let mut before: HashMap<String, Callback> = HashMap::new();
    let mut after: Option<Callback> = None;
    let pid = p.pid;
    for ev in &c.events {
        let sig = signo(p, ev.sig);
        let tid = if ev.thread == usize::MAX { -1 } else { tid_of(p, ev.thread) };
        let sent2 = sent.clone();
        let cb: Callback = Box::new(move |_k| {
            let r = unsafe {
                if tid < 0 {
                    libc::syscall(libc::SYS_kill, pid, sig)
                } else {
                    libc::syscall(libc::SYS_tgkill, pid, tid, sig)
                }
            };
            if r == 0 {
                sent2.borrow_mut().push((tid, sig));
            }
        });
        if ev.at == "after-return" {
            after = Some(cb);
        } else {
            before.insert(ev.at.clone(), cb);
        }
    }
    let mut spec = EnvSpec { opts: DumpOpts::default(), ..Default::default() };
    match &c.fault {
        FaultSpec::None => {}
        FaultSpec::DestErr(k) => spec.dest_fault = Some(Fault::ErrAt(*k)),
        FaultSpec::DestPanic(k) => spec.dest_fault = Some(Fault::PanicAt(*k)),
        FaultSpec::BadAppRegion => spec.opts.app_memory.push((0x10, 32)),
        FaultSpec::Libc(k, a) => spec.plan.push((k.clone(), a.clone())),
        FaultSpec::StopFailpoint => spec.failpoints = 1,
        FaultSpec::ExitSubset(mask, at) => {
            spec.failpoints = 1;
            let victims: Vec<(u64, i32)> = (1..c.n).filter(|i| mask & (1 << i) != 0 && p.threads[i - 1].kind == Kind::Spin).map(|i| (p.threads[i - 1].page + crate::puppet::OFF_RELEASE, p.threads[i - 1].tid)).collect();
            let mem = std::fs::OpenOptions::new().write(true).open(format!("/proc/{pid}/mem")).expect("mem");
            let at = *at;
            let cb: Callback = Box::new(move |_k| {
                use std::os::unix::fs::FileExt;
                for (addr, _) in &victims {
                    let _ = mem.write_all_at(&1u64.to_le_bytes(), *addr);
                }
                let dl = std::time::Instant::now() + std::time::Duration::from_millis(500);
                for (_, tid) in &victims {
                    while std::path::Path::new(&format!("/proc/{pid}/task/{tid}")).exists() && std::time::Instant::now() < dl {
                        std::thread::sleep(std::time::Duration::from_micros(200));
                    }
                }
            });
            before.insert(format!("attach:t{at}"), cb);
        }
    }
    let out: EnvOut = env_dump(p, &spec, before, after);
    let result_kind = match &out.result {
        DumpResult::Ok(_) => 0,
        DumpResult::Err(_) => 1,
        DumpResult::Panic(_) => 2,
    };
    let fault_hit = match &c.fault {
        FaultSpec::None => true,
        FaultSpec::DestErr(_) | FaultSpec::DestPanic(_) => out.dest.fault_fired,
        FaultSpec::BadAppRegion => result_kind == 1,
        FaultSpec::Libc(k, _) => out.trace.iter().any(|t| &t.key == k && t.deviated),
        FaultSpec::StopFailpoint => true,
        FaultSpec::ExitSubset(..) => true,
    };
    let mut respawn = false;
    if let FaultSpec::ExitSubset(mask, _) = &c.fault {
        respawn = true;
        // released threads that were already attached exit right after the dump: give them a moment,
        // then take every vanished thread off the books (an exited thread owes nothing)
        std::thread::sleep(std::time::Duration::from_millis(20));
        for i in 1..c.n {
            if mask & (1 << i) != 0 && p.threads[i - 1].kind == Kind::Spin {
                let dl = std::time::Instant::now() + std::time::Duration::from_secs(2);
                while std::path::Path::new(&format!("/proc/{pid}/task/{}", p.threads[i - 1].tid)).exists() && std::time::Instant::now() < dl {
                    std::thread::sleep(std::time::Duration::from_millis(1));
                }
                if std::path::Path::new(&format!("/proc/{pid}/task/{}", p.threads[i - 1].tid)).exists() {
                    fails.push(("released-thread-never-exited".into(), format!("thread {} was told to exit during the dump but is still there 2 s after it", p.threads[i - 1].tid)));
                }
                p.threads[i - 1].alive = false;
            }
        }
    }
    if let (DumpResult::Panic(m), false) = (&out.result, matches!(c.fault, FaultSpec::DestPanic(_))) {
        fails.push(("dump-panicked".into(), format!("dump panicked: {m}")));
    }
    // the tracer saw a stop that was not SIGSTOP (re-injection path): WIFSTOPPED with another signal
    let saw_non_sigstop_stop = out.trace.iter().any(|t| t.func == "waitpid" && t.ret > 0 && {
        let st = i64::from_str_radix(t.detail.trim_start_matches("status 0x"), 16).unwrap_or(0);
        (st & 0xff) == 0x7f && ((st >> 8) & 0xff) != libc::SIGSTOP as i64
    });
    // trace monitor: every successful attach is followed by a detach of the same thread
    for t in out.trace.iter().filter(|t| t.key.starts_with("attach:") && t.ret == 0) {
        let who = &t.key["attach:".len()..];
        if !out.trace.iter().any(|d| d.key == format!("detach:{who}")) {
            fails.push(("attached-thread-never-detached".into(), format!("thread {who} was attached but PTRACE_DETACH was never called for it")));
        }
    }
    // --- oracle 1: nobody traced or stopped (allow the kernel 2 s)
    let deadline = std::time::Instant::now() + std::time::Duration::from_secs(10);
    let mut bad: Vec<String>;
    loop {
        bad = Vec::new();
        for tid in p.kernel_tids() {
            let tracer = p.status_field(tid, "TracerPid").unwrap_or_default();
            let state = p.status_field(tid, "State").unwrap_or_default();
            if tracer != "0" && !tracer.is_empty() {
                bad.push(format!("thread {tid} still has TracerPid {tracer}"));
            }
            if state.starts_with('t') || state.starts_with('T') {
                bad.push(format!("thread {tid} is in state {state}"));
            }
        }
        if bad.is_empty() || std::time::Instant::now() > deadline {
            break;
        }
        std::thread::sleep(std::time::Duration::from_millis(2));
    }
    if !bad.is_empty() {
        let k = if bad.iter().any(|b| b.contains("TracerPid")) { "left-attached" } else { "left-stopped" };
        fails.push((k.into(), format!("after the dump request ended: {}", bad.join("; "))));
        // make the puppet usable again for the next case
        unsafe {
            libc::syscall(libc::SYS_kill, p.pid, libc::SIGCONT);
        }
        return Outcome { respawn: true, fails, result_kind, saw_non_sigstop_stop, signals_sent: sent.borrow().len(), fault_hit };
    }
    // --- oracle 2: every thread makes progress
    let ping_ok = p.cmd("ping").is_ok();
    if !ping_ok {
        fails.push(("main-thread-dead".into(), "the control thread does not answer".into()));
    }
    for i in 0..p.threads.len() {
        if !p.threads[i].alive {
            continue;
        }
        let b0 = p.beat(i);
        let dl = std::time::Instant::now() + std::time::Duration::from_secs(10);
        let mut moved = false;
        while std::time::Instant::now() < dl {
            if p.threads[i].kind == Kind::Block {
                // a wake-up only reaches a thread that is inside futex_wait already; right after
                // SIGCONT it may still be on its way back into the (restarted) syscall: keep waking
                let _ = p.cmd(&format!("wake {}", p.threads[i].idx));
            }
            if p.beat(i) != b0 {
                moved = true;
                break;
            }
            std::thread::sleep(std::time::Duration::from_micros(300));
        }
        if !moved {
            fails.push(("thread-not-running".into(), format!("thread {} ({}) makes no progress after the dump", p.threads[i].tid, p.threads[i].kind.name())));
        }
    }
    // --- oracle 3: signals handled exactly once
    let want = sent.borrow().clone();
    let dl = std::time::Instant::now() + std::time::Duration::from_secs(10);
    let mut got: Vec<(i32, i32)>;
    loop {
        got = p.signal_log()[log_before..].to_vec();
        if got.len() >= want.len() || std::time::Instant::now() > dl {
            break;
        }
        std::thread::sleep(std::time::Duration::from_millis(1));
    }
    // give duplicates a moment to show up; a handler that was preempted between claiming its log
    // slot and filling it in shows up as a (0, 0) entry: wait for it to be completed
    let dl2 = std::time::Instant::now() + std::time::Duration::from_secs(3);
    loop {
        std::thread::sleep(std::time::Duration::from_millis(2));
        got = p.signal_log()[log_before..].to_vec();
        if !got.iter().any(|g| g.0 == 0 || g.1 == 0) || std::time::Instant::now() > dl2 {
            break;
        }
    }
    for (tid, sig) in &want {
        let n_sent = want.iter().filter(|w| w == &&(*tid, *sig)).count();
        let n_got = if *tid < 0 { got.iter().filter(|g| g.1 == *sig).count() } else { got.iter().filter(|g| g == &&(*tid, *sig)).count() };
        if n_got < n_sent {
            fails.push(("signal-lost".into(), format!("signal {sig} sent to {} was handled {n_got} times instead of {n_sent}", if *tid < 0 { "the process".to_string() } else { format!("thread {tid}") })));
        } else if n_got > n_sent {
            fails.push(("signal-duplicated".into(), format!("signal {sig} sent to thread {tid} {n_sent}x was handled {n_got}x")));
        }
    }
    if got.len() > want.len() {
        fails.push(("spurious-signal".into(), format!("{} handler runs for {} signals sent: {got:?}", got.len(), want.len())));
    }
    if !respawn {
        p.quiesce();
    }
    Outcome { respawn, fails, result_kind, saw_non_sigstop_stop, signals_sent: want.len(), fault_hit }
}

/// A thread that is slow to stop: it sits in vfork's killable-only wait for ~2.5 s when the dump
/// starts, so the writer's attach does not take effect at once.  Whatever the writer does meanwhile,
/// once the wait is over nobody may be traced or stopped and the slow thread must run again.
/// fault: 0 none, 1 destination error at call 5, 2 StopProcess fail point, 3 stop timeout 5 ms
fn run_slow_stop(fault: u8, burst: bool) -> (Value, Vec<(String, String)>) {
    let case = json!({"slow_stop": fault, "burst": burst});
    let mut fails = Vec::new();
    let mut p = Puppet::spawn();
    p.add_thread(Kind::Block);
    let burst_sigs = [libc::SIGHUP, libc::SIGINT, libc::SIGQUIT, libc::SIGABRT, libc::SIGUSR1, libc::SIGUSR2, libc::SIGPIPE, libc::SIGALRM, libc::SIGTERM, libc::SIGSTKFLT];
    if burst {
        let _ = p.cmd("morehandlers");
    }
    let log_before = p.signal_log().len();
    let (slow_tid, counter) = p.vforkwait(2500);
    std::thread::sleep(std::time::Duration::from_millis(150));
    if burst {
        // ten distinct standard signals queue up for the thread while it cannot act on them: once the
        // writer has attached, each one surfaces as a signal-delivery stop that must be handed back
        for s in burst_sigs {
            unsafe {
                libc::syscall(libc::SYS_tgkill, p.pid, slow_tid, s);
            }
        }
    }
    let mut spec = EnvSpec::default();
    match fault {
        1 => spec.dest_fault = Some(Fault::ErrAt(5)),
        2 => spec.failpoints = 1,
        3 => spec.opts.stop_timeout_ms = Some(5),
        // the writer's wait for the slow thread's attach stop is interrupted once (a signal handler without
        // SA_RESTART in the dumping process): t0 = main, t1 = the blocked thread, t2 = the slow thread
        4 => spec.plan.push(("wait:t2#0".into(), crate::env::Alt::Errno(libc::EINTR))),
        _ => {}
    }
    let t0 = std::time::Instant::now();
    let out = env_dump(&p, &spec, HashMap::new(), None);
    let took = t0.elapsed();
    if let DumpResult::Panic(m) = &out.result {
        fails.push(("dump-panicked".into(), format!("dump panicked: {m}")));
    }
    for t in out.trace.iter().filter(|t| t.key.starts_with("attach:") && t.ret == 0) {
        let who = &t.key["attach:".len()..];
        if !out.trace.iter().any(|d| d.key == format!("detach:{who}") && d.ret == 0) {
            fails.push(("attached-thread-never-detached".into(), format!("thread {who} was attached but no PTRACE_DETACH of it succeeded")));
        }
    }
    let deadline = std::time::Instant::now() + std::time::Duration::from_secs(8);
    let mut bad: Vec<String>;
    loop {
        bad = Vec::new();
        for tid in p.kernel_tids() {
            let tracer = p.status_field(tid, "TracerPid").unwrap_or_default();
            let state = p.status_field(tid, "State").unwrap_or_default();
            if tracer != "0" && !tracer.is_empty() {
                bad.push(format!("thread {tid} still has TracerPid {tracer}"));
            }
            if state.starts_with('t') || state.starts_with('T') {
                bad.push(format!("thread {tid} is in state {state}"));
            }
        }
        if p.read_u64(counter) != 1 {
            bad.push(format!("the slow thread {slow_tid} has not come back from its wait"));
        }
        if bad.is_empty() || std::time::Instant::now() > deadline {
            break;
        }
        std::thread::sleep(std::time::Duration::from_millis(5));
    }
    if !bad.is_empty() {
        let k = if bad.iter().any(|b| b.contains("TracerPid")) { "left-attached" } else if bad.iter().any(|b| b.contains("state")) { "left-stopped" } else { "slow-thread-never-resumed" };
        fails.push((format!("slow-stop/{k}"), format!("dump took {:.1} s; 8 s after it ended: {}", took.as_secs_f64(), bad.join("; "))));
    } else if p.cmd("ping").is_err() {
        fails.push(("slow-stop/main-thread-dead".into(), "the control thread does not answer".into()));
    } else if burst {
        let dl = std::time::Instant::now() + std::time::Duration::from_secs(5);
        let mut got: Vec<(i32, i32)>;
        loop {
            got = p.signal_log()[log_before..].to_vec();
            if (got.len() >= burst_sigs.len() && !got.iter().any(|g| g.0 == 0 || g.1 == 0)) || std::time::Instant::now() > dl {
                break;
            }
            std::thread::sleep(std::time::Duration::from_millis(2));
        }
        for s in burst_sigs {
            let n = got.iter().filter(|g| **g == (slow_tid, s)).count();
            if n != 1 {
                fails.push((if n == 0 { "slow-stop/signal-lost" } else { "slow-stop/signal-duplicated" }.into(), format!("signal {s} queued for the slow thread {slow_tid} before the dump was handled {n} times (log: {got:?})")));
                break;
            }
        }
    }
    (case, fails)
}

fn placements(n: usize) -> Vec<String> {
    let mut v = vec!["stop#0".to_string(), "open:/proc/P/stat#0".into(), "opendir:/proc/P/task#0".into()];
    for i in 0..n {
        v.push(format!("attach:t{i}"));
        v.push(format!("wait:t{i}#0"));
    }
    v.push("regs:t0#1".into());
    v.push("vmread#0".into());
    v.push("vmread#20".into());
    v.push("uname#0".into());
    v.push("open:/proc/P/limits#0".into());
    for i in 0..n {
        v.push(format!("detach:t{i}"));
    }
    v.push("cont#0".into());
    v.push("after-return".into());
    v
}

fn events_for(n: usize) -> Vec<(usize, usize)> {
    // (thread, signal selector)
    let mut v = Vec::new();
    for t in 0..n {
        v.push((t, 0));
        v.push((t, 1));
    }
    v.push((usize::MAX, 2));
    v
}

fn libc_faults(p: &Puppet) -> Vec<FaultSpec> {
    let base = crate::envrun::baseline_trace(p, &DumpOpts::default());
    let mut v = Vec::new();
    let mut seen = std::collections::HashSet::new();
    for c in &base {
        if !seen.insert(c.key.clone()) {
            continue;
        }
        // the number of stop polls depends on timing: only the first one is part of the alphabet
        if c.key.starts_with("open:/proc/P/stat#") && c.key != "open:/proc/P/stat#0" {
            continue;
        }
        let k = c.key.as_str();
        let alts: Vec<Alt> = if k.starts_with("attach:") {
            vec![Alt::Errno(libc::EPERM), Alt::Errno(libc::ESRCH)]
        } else if k.starts_with("wait:") {
            vec![Alt::Errno(libc::EINTR), Alt::Errno(libc::ECHILD)]
        } else if k.starts_with("regs:") {
            vec![Alt::Errno(libc::ESRCH)]
        } else if k.starts_with("vmread#") {
            let i: usize = k["vmread#".len()..].parse().unwrap_or(0);
            if i < 6 || i % 16 == 0 { vec![Alt::Errno(libc::EFAULT), Alt::Short(1)] } else { vec![] }
        } else if k.starts_with("open:") || k.starts_with("opendir:") {
            vec![Alt::Errno(libc::ENOENT)]
        } else if k == "stop#0" {
            vec![Alt::Errno(libc::EPERM)]
        } else if k.starts_with("uname") {
            vec![Alt::Errno(libc::EFAULT)]
        } else {
            vec![]
        };
        for a in alts {
            v.push(FaultSpec::Libc(c.key.clone(), a));
        }
    }
    v
}

pub fn run(ctx: &Ctx, rep: &mut Report) {
    rep.rule = "fault points (every destination call x {Err, panic}, a hard error mid-dump, every injectable libc answer of the baseline trace, the StopProcess fail point) each with 0 events, and every placement of one signal event (thread-directed SIGUSR1 / SIGRTMIN to each thread, process-directed SIGUSR2) at ~18 syscall boundaries under {no fault, StopProcess fail point, a destination error, an attach failure}; thorough: all pairs of events with different signal numbers at two placements; N in {3, 1}, plus a 5-thread target whose spin threads exit between enumeration and attach and a 4-thread target with a null-stack-pointer thread. nontrivial = runs with at least one signal event or a fault that was actually hit".into();
    rep.assume("the kernel's choice among runnable target threads while the dumper is blocked is not controlled; PTRACE_DETACH/PTRACE_CONT/SIGCONT are never made to fail");
    if let Some(case) = &ctx.replay {
        if let Some(f) = case.get("slow_stop").and_then(|f| f.as_u64()) {
            let (c, fails) = run_slow_stop(f as u8, case.get("burst").and_then(|b| b.as_bool()).unwrap_or(false));
            rep.evaluations += 1;
            for (k, m) in fails {
                rep.violation(&k, &m, c.clone());
            }
            return;
        }
        let Some(c) = Case::from_json(case) else {
            rep.machinery("bad replay".into());
            return;
        };
        let mut p = make_target(c.n);
        let o = run_case(&mut p, &c);
        rep.evaluations += 1;
        for (k, m) in o.fails {
            rep.violation(&k, &m, case.clone());
        }
        return;
    }
    let thorough = ctx.tier.is_thorough();
    // build the case list per N (needs a baseline trace from a live puppet)
    let mut all: Vec<Case> = Vec::new();
    for n in [3usize, 1] {
        let p = make_target(n);
        let calls = {
            let out = env_dump(&p, &EnvSpec::default(), HashMap::new(), None);
            out.dest.calls
        };
        let mut faults: Vec<FaultSpec> = vec![FaultSpec::None, FaultSpec::BadAppRegion, FaultSpec::StopFailpoint];
        for k in 0..calls {
            if thorough || n == 3 || k % 7 == 0 {
                faults.push(FaultSpec::DestErr(k));
                faults.push(FaultSpec::DestPanic(k));
            }
        }
        faults.extend(libc_faults(&p));
        for f in &faults {
            all.push(Case { n, fault: f.clone(), events: vec![] });
        }
        // one event at every placement, under four fault contexts
        let contexts = vec![FaultSpec::None, FaultSpec::StopFailpoint, FaultSpec::DestErr(calls / 2), FaultSpec::Libc("attach:t0".into(), Alt::Errno(libc::EPERM))];
        let pls = placements(n);
        let evs = events_for(n);
        for (ci, fc) in contexts.iter().enumerate() {
            for pl in &pls {
                for (t, s) in &evs {
                    if ci >= 2 && !thorough && *s != 0 {
                        continue;
                    }
                    all.push(Case { n, fault: fc.clone(), events: vec![Event { at: pl.clone(), thread: *t, sig: *s }] });
                }
            }
        }
        if thorough && n == 3 {
            // two events, different signal numbers, all placement pairs (incl. same placement is impossible: one callback per key)
            for (i, p1) in pls.iter().enumerate() {
                for p2 in pls.iter().skip(i + 1) {
                    for t1 in 0..n {
                        for t2 in 0..n {
                            all.push(Case { n, fault: FaultSpec::None, events: vec![Event { at: p1.clone(), thread: t1, sig: 0 }, Event { at: p2.clone(), thread: t2, sig: 1 }] });
                        }
                    }
                    all.push(Case { n, fault: FaultSpec::StopFailpoint, events: vec![Event { at: p1.clone(), thread: 1, sig: 0 }, Event { at: p2.clone(), thread: usize::MAX, sig: 2 }] });
                }
            }
        }
    }
    // a target with a null-stack-pointer thread (attached, then skipped)
    for f in [FaultSpec::None, FaultSpec::StopFailpoint, FaultSpec::BadAppRegion, FaultSpec::DestErr(5), FaultSpec::DestPanic(40), FaultSpec::Libc("attach:t1".into(), Alt::Errno(libc::EPERM))] {
        all.push(Case { n: 4, fault: f.clone(), events: vec![] });
        for (thread, sig) in [(3usize, 0usize), (3, 1), (1, 0)] {
            all.push(Case { n: 4, fault: f.clone(), events: vec![Event { at: "attach:t3".into(), thread, sig }] });
            all.push(Case { n: 4, fault: f.clone(), events: vec![Event { at: "opendir:/proc/P/task#0".into(), thread, sig }] });
        }
    }
    // thread exits between enumeration and attach: every subset of the two spin threads of a 5-thread
    // target, at two placements, with and without a signal event aimed at a thread that exits / stays
    for mask in [0u32, 1 << 2, 1 << 4, (1 << 2) | (1 << 4)] {
        for at in [1usize, 3] {
            all.push(Case { n: 5, fault: FaultSpec::ExitSubset(mask, at), events: vec![] });
            for (thread, sig) in [(2usize, 0usize), (4, 1), (1, 0), (usize::MAX, 2)] {
                all.push(Case { n: 5, fault: FaultSpec::ExitSubset(mask, at), events: vec![Event { at: "opendir:/proc/P/task#0".into(), thread, sig }] });
                if thorough {
                    all.push(Case { n: 5, fault: FaultSpec::ExitSubset(mask, at), events: vec![Event { at: format!("attach:t{at}"), thread, sig }] });
                }
            }
        }
    }
    // run: chunks share one puppet each
    let chunks: Vec<Vec<Case>> = {
        let mut by_n: Vec<Vec<Case>> = Vec::new();
        for n in [3usize, 1, 5, 4] {
            let cs: Vec<Case> = all.iter().filter(|c| c.n == n).cloned().collect();
            let per = cs.len().div_ceil(if n == 3 { 12 } else { 4 }).max(1);
            for part in cs.chunks(per) {
                by_n.push(part.to_vec());
            }
        }
        by_n
    };
    let results = par_map(&chunks, |_, chunk| {
        let mut p = make_target(chunk[0].n);
        let mut out = Vec::new();
        for c in chunk {
            if !p.alive() {
                p = make_target(c.n);
            }
            // a change that leaves targets stopped/attached makes every following case fail the same
            // (slow) way: after a few such failures the rest of the schedule is skipped, not explored
            if BROKEN.load(std::sync::atomic::Ordering::SeqCst) >= 4 {
                SKIPPED.fetch_add(1, std::sync::atomic::Ordering::SeqCst);
                continue;
            }
            let o = run_case(&mut p, c);
            let broken = o.respawn || o.fails.iter().any(|f| f.0.starts_with("left-") || f.0 == "main-thread-dead");
            out.push((c.clone(), o));
            if broken {
                if !matches!(out.last().map(|x: &(Case, Outcome)| x.1.respawn && x.1.fails.is_empty()), Some(true)) {
                    BROKEN.fetch_add(1, std::sync::atomic::Ordering::SeqCst);
                }
                p = make_target(c.n); // do not let one failure poison the following cases
            }
        }
        out
    });
    let (mut reinject, mut with_signal, mut hit, mut kinds) = (0u64, 0u64, 0u64, [0u64; 3]);
    for chunk in results {
        for (c, o) in chunk {
            rep.evaluations += 1;
            kinds[o.result_kind as usize] += 1;
            if o.saw_non_sigstop_stop {
                reinject += 1;
            }
            if o.signals_sent > 0 {
                with_signal += 1;
            }
            if o.fault_hit && c.fault != FaultSpec::None {
                hit += 1;
            }
            if o.signals_sent > 0 || (o.fault_hit && c.fault != FaultSpec::None) {
                rep.nontrivial += 1;
            }
            rep.outcome(mdv_core::fnv(format!("{}{}{}", o.result_kind, o.saw_non_sigstop_stop, o.signals_sent).as_bytes()));
            if rep.samples.len() < 4 && !c.events.is_empty() && o.saw_non_sigstop_stop {
                rep.sample(c.to_json());
            }
            for (k, m) in o.fails {
                rep.violation(&k, &m, c.to_json());
            }
        }
    }
    // slow-to-stop thread (vfork wait) under five fault contexts
    let slow: Vec<(u8, bool)> = vec![(0, false), (1, false), (3, false), (4, false), (0, true), (3, true), (4, true)];
    let mut sres = par_map(&slow, |_, (f, burst)| {
        crate::watch::begin(json!({"slow_stop": f, "burst": burst}));
        let r = run_slow_stop(*f, *burst);
        crate::watch::end();
        r
    });
    // the fail-point cases need the process-global fail-point lock for the whole dump: run them one after
    // the other, otherwise the second one would start its dump only after its slow thread's wait is over
    for burst in [false, true] {
        crate::watch::begin(json!({"slow_stop": 2, "burst": burst}));
        sres.push(run_slow_stop(2, burst));
        crate::watch::end();
    }
    let slow: Vec<(u8, bool)> = slow.into_iter().chain([(2, false), (2, true)]).collect();
    for (case, fails) in sres {
        rep.evaluations += 1;
        rep.nontrivial += 1;
        for (k, m) in fails {
            rep.violation(&k, &m, case.clone());
        }
    }
    rep.set("slow_to_stop_thread_cases", json!(slow.len()));
    let skipped = SKIPPED.load(std::sync::atomic::Ordering::SeqCst);
    if skipped > 0 {
        rep.exhaustive = false;
    }
    rep.set("schedules_skipped_after_repeated_stuck_targets", json!(skipped));
    rep.set("schedules", json!({"total": all.len(), "with_signal_delivered_to_the_sender_api": with_signal, "tracer_saw_a_non_SIGSTOP_stop_(reinjection_path)": reinject, "fault_actually_hit": hit, "dump_ok": kinds[0], "dump_err": kinds[1], "dump_panicked_(injected)": kinds[2]}));
    rep.states = rep.evaluations;
    rep.transitions = rep.evaluations;
    rep.traces = rep.evaluations;
    rep.exhaustive = skipped == 0;
}
