//! C15 — thread names are attached to the right threads.
//!
//! LAT/E: thread count N x EVERY subset U of threads whose name is unreadable (real non-UTF-8
//! `comm`) x a name alphabet assigned round-robin (so neighbours differ), plus the ThreadName fail
//! point (all unreadable). Oracle: the names stream is exactly {(tid, kernel name)} for listed
//! threads outside U.

use crate::dump::{dump_mem, DumpOpts, DumpResult};
use crate::shapes::{build, par_map, Shape};
use crate::Ctx;
use mdv_core::mdparse::Dump;
use mdv_core::{json, Report, Value};

const NAMES: [&[u8]; 12] = [b"a", b"fifteen-bytes-xy", b"\xc3\xa9t\xc3\xa9", b"\xf0\x9f\xa6\x80-pool", b"a b", b"tab\there", b"x", b"trail  ", b"\xe2\x82\xac1", b"\xf0\x9f\xa6\x80\xf0\x9f\xa6\x80", b"\n", b" "];
const BAD: [&[u8]; 3] = [b"\xff\xfe\xfd", b"a\xffb", b"\xc3"];

pub struct CaseResult {
    pub case: Value,
    pub fails: Vec<(String, String)>,
    pub dump_failed: Option<String>,
    pub mixed: bool,
    pub outcome: u64,
}

fn expected_name(comm: &[u8]) -> Option<(String, String)> {
    // (exact without final newline, trimmed) — both readings of "the name the kernel reports"
    let s = std::str::from_utf8(comm).ok()?;
    let exact = s.strip_suffix('\n').unwrap_or(s).to_string();
    Some((exact, s.trim_end().to_string()))
}

pub fn judge(p: &crate::puppet::Puppet, bytes: &[u8], failpoint_all: bool) -> Vec<(String, String)> {
    judge_pid(p.pid, bytes, failpoint_all)
}

pub fn judge_pid(pid: i32, bytes: &[u8], failpoint_all: bool) -> Vec<(String, String)> {
    let d = Dump::parse(bytes);
    let mut fails = Vec::new();
    let listed: Vec<u32> = d.threads.iter().map(|t| t.tid).collect();
    let mut expected: Vec<(u32, (String, String))> = Vec::new();
    if !failpoint_all {
        for t in &listed {
            if let Ok(c) = std::fs::read(format!("/proc/{pid}/task/{t}/comm")) {
                if let Some(n) = expected_name(&c) {
                    expected.push((*t, n));
                }
            }
        }
    }
    if !d.has_stream(mdv_core::mdparse::ST_THREAD_NAMES) {
        fails.push(("stream-missing".into(), "no thread-names stream".into()));
        return fails;
    }
    for e in d.errors.iter().filter(|e| e.contains("ThreadNames") || e.contains("name of thread")) {
        fails.push((format!("structure/{}", crate::shapes::classify(e)), e.clone()));
    }
    let got: Vec<(u32, Option<String>)> = d.thread_names.iter().map(|(t, _, n)| (*t, n.clone())).collect();
    if got.len() != expected.len() {
        fails.push(("count-mismatch".into(), format!("{} entries for {} listed threads with a readable name", got.len(), expected.len())));
    }
    for (tid, (exact, trimmed)) in &expected {
        let mine: Vec<&(u32, Option<String>)> = got.iter().filter(|(t, _)| t == tid).collect();
        match mine.len() {
            0 => fails.push(("missing-entry".into(), format!("thread {tid} (kernel name {exact:?}) has no entry"))),
            1 => match &mine[0].1 {
                Some(n) if n == exact || n == trimmed => {}
                other => fails.push(("wrong-name".into(), format!("thread {tid} is paired with {other:?}, the kernel reports {exact:?}"))),
            },
            k => fails.push(("duplicate-entry".into(), format!("thread {tid} has {k} entries"))),
        }
    }
    for (tid, n) in &got {
        if !expected.iter().any(|(t, _)| t == tid) {
            let k = if *tid == 0 { "empty-entry" } else { "unexpected-entry" };
            fails.push((k.into(), format!("entry for thread id {tid} ({n:?}) but that thread has no readable name / is not listed")));
        }
    }
    fails
}

fn shape_for(n: usize, unreadable: u64, rot: usize) -> Shape {
    let mut names = Vec::new();
    for i in 0..n {
        if unreadable & (1 << i) != 0 {
            names.push(Some(BAD[i % BAD.len()].to_vec()));
        } else {
            names.push(Some(NAMES[(i + rot) % NAMES.len()].to_vec()));
        }
    }
    Shape { n, names, ..Default::default() }
}

pub fn run_case(n: usize, unreadable: u64, rot: usize, failpoint: bool) -> CaseResult {
    run_case_h(n, unreadable, rot, failpoint, 0)
}

/// `helper`: 0 none; otherwise a sandbox-helper look-alike (spin thread with a null stack pointer, which the
/// writer drops at suspension) is added: 1 = created FIRST with an unreadable name, 2 = first with a readable
/// name, 3 = created LAST with an unreadable name, 4 = last with a readable name.
pub fn run_case_h(n: usize, unreadable: u64, rot: usize, failpoint: bool, helper: u8) -> CaseResult {
    use crate::puppet::{Kind, Puppet, RSP};
    let shape = shape_for(n, unreadable, rot);
    let mk_helper = |p: &mut Puppet| {
        let t = p.mkthread(Kind::Spin);
        p.set_gpr(t, RSP, 0);
        let tid = p.start(t);
        p.set_name(tid, if helper % 2 == 1 { b"\xfe\xff\x80" } else { b"helper" });
    };
    let b = if helper == 0 {
        build(&shape)
    } else {
        // build by hand so that the helper can come first in the kernel's thread list
        let mut p = Puppet::spawn();
        if helper <= 2 {
            mk_helper(&mut p);
        }
        let first = p.threads.len();
        for _ in 1..shape.n {
            p.add_thread(Kind::Block);
        }
        for (i, name) in shape.names.iter().enumerate() {
            if let Some(nm) = name {
                let tid = if i == 0 { p.pid } else if first + i - 1 < p.threads.len() { p.threads[first + i - 1].tid } else { continue };
                p.set_name(tid, nm);
            }
        }
        if helper >= 3 {
            mk_helper(&mut p);
        }
        p.quiesce();
        crate::shapes::Built { p, pattern_addrs: vec![], file_addrs: vec![] }
    };
    let case = json!({"n": n, "unreadable_mask": unreadable, "rot": rot, "failpoint": failpoint, "helper": helper});
    let mut fp = minidump_writer::FailSpotName::testing_client();
    if failpoint {
        fp.set_enabled(minidump_writer::FailSpotName::ThreadName, true);
    }
    let r = dump_mem(b.p.pid, &DumpOpts::default());
    drop(fp);
    let mixed = unreadable != 0 && unreadable != (1u64 << n) - 1 && !failpoint;
    match r {
        DumpResult::Ok(bytes) => {
            let fails = judge(&b.p, &bytes, failpoint);
            let d = Dump::parse(&bytes);
            let sig: Vec<u8> = d.thread_names.iter().flat_map(|(t, _, n)| {
                let idx = d.threads.iter().position(|x| x.tid == *t).unwrap_or(99) as u8;
                vec![idx, n.as_ref().map(|s| s.len() as u8).unwrap_or(255)]
            }).collect();
            CaseResult { case, fails, dump_failed: None, mixed, outcome: mdv_core::fnv(&sig) }
        }
        DumpResult::Err(e) => CaseResult { case, fails: vec![], dump_failed: Some(e), mixed, outcome: 1 },
        DumpResult::Panic(p) => CaseResult { case, fails: vec![("panic".into(), p)], dump_failed: None, mixed, outcome: 2 },
    }
}

pub fn run(ctx: &Ctx, rep: &mut Report) {
    rep.rule = "thread count N x every subset U of threads with an unreadable (non-UTF-8) kernel name x 3 rotations of a 12-name alphabet (ASCII, 15/16 bytes, non-ASCII UTF-8 incl. astral plane, inner/trailing whitespace, empty, whitespace only), plus the ThreadName fail point, plus a null-stack-pointer helper thread (dropped at suspension) with a readable / unreadable name created first / last; nontrivial = cases with at least one named AND one unnamed listed thread".into();
    rep.assume("a thread's kernel name is what /proc/<pid>/task/<tid>/comm returns while the target is quiescent; trailing whitespace may or may not be trimmed");
    if let Some(case) = &ctx.replay {
        let g = |k: &str| case.get(k).and_then(|v| v.as_u64()).unwrap_or(0);
        let r = run_case_h(g("n") as usize, g("unreadable_mask"), g("rot") as usize, case.get("failpoint").and_then(|v| v.as_bool()).unwrap_or(false), g("helper") as u8);
        rep.evaluations += 1;
        for (k, m) in r.fails {
            rep.violation(&k, &m, case.clone());
        }
        if let Some(e) = r.dump_failed {
            eprintln!("dump failed: {e}");
        }
        return;
    }
    let mut cases: Vec<(usize, u64, usize, bool)> = Vec::new();
    let max_full = if ctx.tier.is_thorough() { 8 } else { 6 };
    for n in 1..=max_full {
        for u in 0..(1u64 << n) {
            for rot in [0usize, 3, 9] {
                cases.push((n, u, rot, false));
            }
        }
        cases.push((n, 0, 0, true));
    }
    let big: &[usize] = if ctx.tier.is_thorough() { &[12, 16, 24, 32] } else { &[16, 32] };
    for &n in big {
        let all = (1u64 << n) - 1;
        let alt = 0x5555_5555_5555_5555u64 & all;
        for u in [0, 1, 1 << (n - 1), alt, all & !1, all & !(1 << (n - 1)), 1 << (n / 2), all] {
            cases.push((n, u, 0, false));
        }
    }
    // the fail point is process-global: run those cases sequentially, everything else in parallel
    let (fp_cases, par_cases): (Vec<_>, Vec<_>) = cases.into_iter().partition(|c| c.3);
    let mut results = par_map(&par_cases, |_, c| run_case(c.0, c.1, c.2, c.3));
    // a sandbox-helper look-alike (dropped at suspension) with a readable / unreadable name, created first / last,
    // x every subset of unreadable names on 3 ordinary threads x (thorough) 5
    let hn: Vec<usize> = if ctx.tier.is_thorough() { vec![2, 3, 5] } else { vec![3] };
    let mut hcases: Vec<(usize, u64, u8)> = Vec::new();
    for n in hn {
        for u in 0..(1u64 << n) {
            for helper in 1..=4u8 {
                hcases.push((n, u, helper));
            }
        }
    }
    results.extend(par_map(&hcases, |_, c| run_case_h(c.0, c.1, 0, false, c.2)));
    for c in &fp_cases {
        results.push(run_case(c.0, c.1, c.2, c.3));
    }
    let mut failed_dumps = 0u64;
    let mut first_fail = None;
    for r in results {
        rep.evaluations += 1;
        rep.outcome(r.outcome);
        if r.mixed && r.dump_failed.is_none() {
            rep.nontrivial += 1;
            if rep.samples.len() < 2 {
                rep.sample(r.case.clone());
            }
        }
        if let Some(e) = &r.dump_failed {
            failed_dumps += 1;
            if first_fail.is_none() {
                first_fail = Some(json!({"case": r.case, "error": e}));
            }
        }
        for (k, m) in r.fails {
            rep.violation(&k, &m, r.case.clone());
        }
    }
    rep.set("dumps_that_returned_an_error", json!(failed_dumps));
    if let Some(f) = first_fail {
        rep.set("first_failed_dump", f);
    }
    rep.states = rep.evaluations;
    rep.transitions = rep.evaluations;
    rep.traces = rep.evaluations;
    rep.exhaustive = true;
}
