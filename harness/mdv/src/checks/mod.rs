pub mod c01;
pub mod c02;
pub mod c03;
pub mod c04;
pub mod c05;
pub mod c05e;
pub mod c06;
pub mod c07;
pub mod c08;
pub mod c09;
pub mod c09e;
pub mod c10;
pub mod c10e;
pub mod c11;
pub mod c12;
pub mod c13;
pub mod c14;
pub mod c14e;
pub mod c15;
pub mod c16;
pub mod c17;
pub mod c18;
pub mod c19;
pub mod c20;
pub mod c20e;

use crate::Ctx;
use mdv_core::Report;

pub fn level_of(prop: &str) -> &'static str {
    match prop {
        "C08" | "C18" => "exploration",
        _ => "model_checking",
    }
}

pub fn dispatch(prop: &str, ctx: &Ctx, rep: &mut Report) -> bool {
    match prop {
        "C01" => c01::run(ctx, rep),
        "C02" => c02::run(ctx, rep),
        "C03" => c03::run(ctx, rep),
        "C04" => c04::run(ctx, rep),
        "C05" => c05::run(ctx, rep),
        "C06" => c06::run(ctx, rep),
        "C07" => c07::run(ctx, rep),
        "C08" => c08::run(ctx, rep),
        "C09" => c09::run(ctx, rep),
        "C10" => c10::run(ctx, rep),
        "C11" => c11::run(ctx, rep),
        "C12" => c12::run(ctx, rep),
        "C13" => c13::run(ctx, rep),
        "C14" => c14::run(ctx, rep),
        "C15" => c15::run(ctx, rep),
        "C16" => c16::run(ctx, rep),
        "C17" => c17::run(ctx, rep),
        "C18" => c18::run(ctx, rep),
        "C19" => c19::run(ctx, rep),
        "C20" => c20::run(ctx, rep),
        _ => return false,
    }
    true
}

/// Run `f`, converting a panic into Err(message). The default panic hook is silenced while the
/// subject runs so that expected panics (totality checks) do not flood stderr.
pub fn guarded<T>(f: impl FnOnce() -> T) -> Result<T, String> {
    use std::sync::Once;
    static HOOK: Once = Once::new();
    HOOK.call_once(|| {
        let default = std::panic::take_hook();
        std::panic::set_hook(Box::new(move |info| {
            if QUIET.with(|q| q.get()) {
                let msg = info.to_string();
                LAST_PANIC.with(|l| *l.borrow_mut() = msg);
            } else {
                default(info);
            }
        }));
    });
    QUIET.with(|q| q.set(true));
    let r = std::panic::catch_unwind(std::panic::AssertUnwindSafe(f));
    QUIET.with(|q| q.set(false));
    r.map_err(|_| LAST_PANIC.with(|l| l.borrow().clone()))
}

thread_local! {
    static QUIET: std::cell::Cell<bool> = const { std::cell::Cell::new(false) };
    static LAST_PANIC: std::cell::RefCell<String> = const { std::cell::RefCell::new(String::new()) };
}
