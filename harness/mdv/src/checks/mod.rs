pub mod c01;
pub mod c02;
pub mod c03;
pub mod c04;
pub mod c05;
pub mod c05e;
pub mod c06;
pub mod c07;
pub mod c08;
pub mod c09;
pub mod c09e;
pub mod c10;
pub mod c10e;
pub mod c11;
pub mod c12;
pub mod c13;
pub mod c14;
pub mod c14e;
pub mod c15;
pub mod c16;
pub mod c17;
pub mod c18;
pub mod c19;
pub mod c20;
pub mod c20e;
pub mod universal;

use crate::Ctx;
use mdv_core::Report;

pub fn level_of(prop: &str) -> &'static str {
    match prop {
        "C08" | "C18" => "exploration",
        _ => "model_checking",
    }
}

/// The universal oracle of a property, whether it tolerates dumps taken under injected faults, and the
/// host explorers whose dumps it is applied to (see universal.rs).
fn cross_plan(prop: &str, thorough: bool) -> Option<(universal::Oracle, bool, Vec<&'static str>)> {
    // explorers whose targets are quiescent (threads parked) and have no null-stack-pointer threads
    let quiet = ["C01", "C02", "C05", "C06", "C07", "C08", "C15", "C18", "C19", "C20"];
    let except = |me: &str, extra: &[&'static str]| -> Vec<&'static str> { quiet.iter().copied().chain(extra.iter().copied()).filter(|h| *h != me).collect() };
    Some(match prop {
        // C01 and C11 already drive C02's case list themselves (EXTRA_JUDGE)
        "C01" => (universal::c01, true, if thorough { except("C02", &["C04", "C11", "C03"]).into_iter().filter(|h| *h != "C01").collect() } else { except("C02", &["C04", "C11"]).into_iter().filter(|h| *h != "C01").collect() }),
        "C11" => (universal::c11, true, if thorough { except("C02", &["C04", "C03"]) } else { except("C02", &["C04"]) }),
        "C02" => (universal::c02, true, if thorough { except("C02", &["C04", "C11", "C03"]) } else { except("C02", &["C04", "C11"]) }),
        "C09" => (universal::c09, true, if thorough { except("C09", &["C04", "C11", "C03"]) } else { except("C09", &["C04", "C11"]) }),
        "C04" => (universal::c04, false, except("C04", &[])),
        "C05" => (universal::c05, false, except("C05", &[])),
        "C06" => (universal::c06, false, except("C06", &[])),
        "C07" => (universal::c07, false, except("C07", &[])),
        // (C02's hosts map deliberately malformed ELF images: identification of those is C14's business)
        "C08" => (universal::c08, false, except("C08", &["C04"]).into_iter().filter(|h| *h != "C02").collect()),
        "C12" => (universal::c12, false, except("C12", &["C04"])),
        "C15" => (universal::c15, false, except("C15", &["C04"])),
        "C20" => (universal::c20, false, except("C20", &["C04"])),
        "C18" => (universal::c18, false, except("C18", &["C04"])),
        _ => return None,
    })
}

pub fn dispatch(prop: &str, ctx: &Ctx, rep: &mut Report) -> bool {
    if let (Some(case), Some((o, tol, _))) = (&ctx.replay, cross_plan(prop, false)) {
        if universal::replay(case, rep, o, tol, prop == "C07") {
            return true;
        }
    }
    if !dispatch_native(prop, ctx, rep) {
        return false;
    }
    if ctx.replay.is_none() && !universal::IN_CROSS.load(std::sync::atomic::Ordering::SeqCst) {
        if let Some((o, tol, hosts)) = cross_plan(prop, ctx.tier.is_thorough()) {
            universal::watch_panics(prop == "C02");
            universal::watch_dest(prop == "C09");
            // C07's region-fidelity part also judges the later dumps of re-used writers
            universal::run_hosts_ext(rep, ctx.tier, o, tol, prop == "C07", &hosts);
            universal::watch_panics(false);
            universal::watch_dest(false);
            if prop == "C02" {
                rep.set("cross_dump_requests_watched_for_panic_and_hang", mdv_core::json!(universal::requests_seen()));
            }
        }
    }
    true
}

fn dispatch_native(prop: &str, ctx: &Ctx, rep: &mut Report) -> bool {
    match prop {
        "C01" => c01::run(ctx, rep),
        "C02" => c02::run(ctx, rep),
        "C03" => c03::run(ctx, rep),
        "C04" => c04::run(ctx, rep),
        "C05" => c05::run(ctx, rep),
        "C06" => c06::run(ctx, rep),
        "C07" => c07::run(ctx, rep),
        "C08" => c08::run(ctx, rep),
        "C09" => c09::run(ctx, rep),
        "C10" => c10::run(ctx, rep),
        "C11" => c11::run(ctx, rep),
        "C12" => c12::run(ctx, rep),
        "C13" => c13::run(ctx, rep),
        "C14" => c14::run(ctx, rep),
        "C15" => c15::run(ctx, rep),
        "C16" => c16::run(ctx, rep),
        "C17" => c17::run(ctx, rep),
        "C18" => c18::run(ctx, rep),
        "C19" => c19::run(ctx, rep),
        "C20" => c20::run(ctx, rep),
        _ => return false,
    }
    true
}

/// Run `f`, converting a panic into Err(message). The default panic hook is silenced while the
/// subject runs so that expected panics (totality checks) do not flood stderr.
pub fn guarded<T>(f: impl FnOnce() -> T) -> Result<T, String> {
    use std::sync::Once;
    static HOOK: Once = Once::new();
    HOOK.call_once(|| {
        let default = std::panic::take_hook();
        std::panic::set_hook(Box::new(move |info| {
            if QUIET.with(|q| q.get()) {
                let msg = info.to_string();
                LAST_PANIC.with(|l| *l.borrow_mut() = msg);
            } else {
                default(info);
            }
        }));
    });
    QUIET.with(|q| q.set(true));
    let r = std::panic::catch_unwind(std::panic::AssertUnwindSafe(f));
    QUIET.with(|q| q.set(false));
    r.map_err(|_| LAST_PANIC.with(|l| l.borrow().clone()))
}

thread_local! {
    static QUIET: std::cell::Cell<bool> = const { std::cell::Cell::new(false) };
    static LAST_PANIC: std::cell::RefCell<String> = const { std::cell::RefCell::new(String::new()) };
}
