//! C16 — the image builder obeys its layout laws.
//!
//! SEQ explorer: breadth-first over operation histories of the real `mem_writer` API, state =
//! history, re-executed on a fresh `Buffer` each time, deduplicated on the canonical observable
//! state (buffer bytes + slot table + array table). Oracle = a `Vec<u8>` reference builder.

use crate::checks::guarded;
use crate::Ctx;
use mdv_core::{fnv, json, Report, Value};
use minidump_writer::mem_writer::{write_string_to_location, Buffer, MemoryArrayWriter, MemoryWriter};
use minidump_writer::minidump_cpu::RawContextCPU;
use minidump_writer::minidump_format::*;
use scroll::{Pread, Pwrite};
use std::any::Any;
use std::collections::HashSet;

const NTYPES: u8 = 19;
const TY_NAMES: [&str; 19] = [
    "u8", "u16", "u32", "u64", "Directory", "Location", "MemoryDescriptor", "Thread", "ThreadName", "Module", "Header",
    "ExceptionStream", "SystemInfo", "ContextAmd64", "MemoryInfo", "HandleDescriptor", "LinkMap",
    "DsoDebug", "HandleDataStream",
];
// serialized sizes, pinned independently of the crate (published minidump layout)
const TY_SIZES: [usize; 19] = [1, 2, 4, 8, 12, 8, 16, 48, 12, 108, 32, 168, 56, 1232, 48, 32, 20, 36, 16];

macro_rules! with_ty {
    ($id:expr, $T:ident => $body:expr) => {
        match $id {
            0 => { type $T = u8; $body }
            1 => { type $T = u16; $body }
            2 => { type $T = u32; $body }
            3 => { type $T = u64; $body }
            4 => { type $T = MDRawDirectory; $body }
            5 => { type $T = MDLocationDescriptor; $body }
            6 => { type $T = MDMemoryDescriptor; $body }
            7 => { type $T = MDRawThread; $body }
            8 => { type $T = MDRawThreadName; $body }
            9 => { type $T = MDRawModule; $body }
            10 => { type $T = MDRawHeader; $body }
            11 => { type $T = MDRawExceptionStream; $body }
            12 => { type $T = MDRawSystemInfo; $body }
            13 => { type $T = RawContextCPU; $body }
            14 => { type $T = MDMemoryInfo; $body }
            15 => { type $T = MDRawHandleDescriptor; $body }
            16 => { type $T = MDRawLinkMap; $body }
            17 => { type $T = MDRawDebug; $body }
            18 => { type $T = MDRawHandleDataStream; $body }
            _ => unreachable!(),
        }
    };
}

// types that are Copy (alloc_from_array needs it)
macro_rules! with_copy_ty {
    ($id:expr, $T:ident => $body:expr) => {
        match $id {
            0 => { type $T = u8; $body }
            1 => { type $T = u16; $body }
            2 => { type $T = u32; $body }
            3 => { type $T = u64; $body }
            6 => { type $T = MDMemoryDescriptor; $body }
            5 => { type $T = MDLocationDescriptor; $body }
            _ => unreachable!(),
        }
    };
}

#[derive(Clone, Copy, PartialEq, Eq, Hash, Debug)]
enum Op {
    Alloc(u8),
    AllocVal(u8, u8),
    SetValue(u8, u8),       // k-th most recent single slot, pattern
    AllocArray(u8, u8),     // type, n
    FromArray(u8, u8, u8),  // type, n, pattern
    FromIter(u8, u8, u8),   // type, n, pattern
    SetAt(u8, u8, u8),      // k-th most recent array, 0=first/1=last/2=middle, pattern
    Bytes(u8),
    Str(u8),
}

const STRS: [&str; 4] = ["", "a", "\u{e9}\u{20ac}\u{1f600}", "\u{0}x"];

impl Op {
    fn to_json(self) -> Value {
        match self {
            Op::Alloc(t) => json!(["alloc", TY_NAMES[t as usize]]),
            Op::AllocVal(t, p) => json!(["alloc_with_val", TY_NAMES[t as usize], p]),
            Op::SetValue(k, p) => json!(["set_value", k, p]),
            Op::AllocArray(t, n) => json!(["alloc_array", TY_NAMES[t as usize], n]),
            Op::FromArray(t, n, p) => json!(["alloc_from_array", TY_NAMES[t as usize], n, p]),
            Op::FromIter(t, n, p) => json!(["alloc_from_iter", TY_NAMES[t as usize], n, p]),
            Op::SetAt(k, w, p) => json!(["set_value_at", k, w, p]),
            Op::Bytes(n) => json!(["write_bytes", n]),
            Op::Str(i) => json!(["write_string", i]),
        }
    }
    fn from_json(v: &Value) -> Option<Op> {
        let a = v.as_array()?;
        let kind = a.first()?.as_str()?;
        let ty = |i: usize| -> Option<u8> {
            let n = a.get(i)?.as_str()?;
            TY_NAMES.iter().position(|x| *x == n).map(|x| x as u8)
        };
        let num = |i: usize| -> Option<u8> { a.get(i)?.as_u64().map(|x| x as u8) };
        Some(match kind {
            "alloc" => Op::Alloc(ty(1)?),
            "alloc_with_val" => Op::AllocVal(ty(1)?, num(2)?),
            "set_value" => Op::SetValue(num(1)?, num(2)?),
            "alloc_array" => Op::AllocArray(ty(1)?, num(2)?),
            "alloc_from_array" => Op::FromArray(ty(1)?, num(2)?, num(3)?),
            "alloc_from_iter" => Op::FromIter(ty(1)?, num(2)?, num(3)?),
            "set_value_at" => Op::SetAt(num(1)?, num(2)?, num(3)?),
            "write_bytes" => Op::Bytes(num(1)?),
            "write_string" => Op::Str(num(1)?),
            _ => return None,
        })
    }
    fn class(self) -> String {
        match self {
            Op::Alloc(t) => format!("alloc/{}", TY_NAMES[t as usize]),
            Op::AllocVal(t, _) => format!("alloc_with_val/{}", TY_NAMES[t as usize]),
            Op::SetValue(..) => "set_value".into(),
            Op::AllocArray(t, n) => format!("alloc_array/{}/{n}", TY_NAMES[t as usize]),
            Op::FromArray(t, n, _) => format!("alloc_from_array/{}/{n}", TY_NAMES[t as usize]),
            Op::FromIter(t, n, _) => format!("alloc_from_iter/{}/{n}", TY_NAMES[t as usize]),
            Op::SetAt(_, w, _) => format!("set_value_at/{w}"),
            Op::Bytes(n) => format!("write_bytes/{n}"),
            Op::Str(i) => format!("write_string/{i}"),
        }
    }
}

fn pat_bytes(pat: u8, elem: usize, size: usize) -> Vec<u8> {
    (0..size).map(|j| ((j * 167 + pat as usize * 59 + elem * 101 + 17) & 0xff) as u8).collect()
}

struct Real {
    buf: Buffer,
    slots: Vec<(u8, Box<dyn Any>)>,
    arrays: Vec<(u8, usize, Box<dyn Any>)>,
}

#[derive(Default, Clone)]
struct Model {
    buf: Vec<u8>,
    slots: Vec<(u8, usize)>,
    arrays: Vec<(u8, usize, usize)>,
}

impl Model {
    fn key(&self) -> u64 {
        let mut k = Vec::with_capacity(64);
        k.extend_from_slice(&fnv(&self.buf).to_le_bytes());
        k.extend_from_slice(&(self.buf.len() as u64).to_le_bytes());
        for (t, o) in &self.slots {
            k.push(*t);
            k.extend_from_slice(&(*o as u32).to_le_bytes());
        }
        k.push(0xff);
        for (t, o, n) in &self.arrays {
            k.push(*t);
            k.extend_from_slice(&(*o as u32).to_le_bytes());
            k.extend_from_slice(&(*n as u32).to_le_bytes());
        }
        fnv(&k)
    }
}

fn loc_ok(loc: &MDLocationDescriptor, rva: usize, size: usize) -> Result<(), String> {
    if loc.rva as usize != rva || loc.data_size as usize != size {
        return Err(format!("returned location (rva {}, size {}) != expected (rva {rva}, size {size})", loc.rva, loc.data_size));
    }
    Ok(())
}

/// Is `op` enabled in this model state?
fn enabled(op: Op, m: &Model) -> bool {
    match op {
        Op::SetValue(k, _) => (k as usize) < m.slots.len(),
        Op::SetAt(k, w, _) => {
            if (k as usize) >= m.arrays.len() {
                return false;
            }
            let (_, _, n) = m.arrays[m.arrays.len() - 1 - k as usize];
            match w {
                0 => n >= 1,
                1 => n >= 2,
                _ => n >= 3,
            }
        }
        _ => true,
    }
}

/// Apply one op to the real builder and the model, checking the layout laws of this transition.
fn apply(op: Op, r: &mut Real, m: &mut Model) -> Result<(), String> {
    let before = m.buf.clone();
    let old_len = before.len();
    if r.buf.len() != old_len {
        return Err(format!("buffer length {} != model {}", r.buf.len(), old_len));
    }
    match op {
        Op::Alloc(t) => {
            let size = TY_SIZES[t as usize];
            with_ty!(t, T => {
                let w = MemoryWriter::<T>::alloc(&mut r.buf).map_err(|e| format!("alloc failed: {e}"))?;
                loc_ok(&w.location(), old_len, size)?;
                if w.position as usize != old_len || w.size != size { return Err(format!("slot handle ({}, {}) != ({old_len}, {size})", w.position, w.size)); }
                r.slots.push((t, Box::new(w)));
            });
            m.buf.extend(std::iter::repeat(0).take(size));
            m.slots.push((t, old_len));
        }
        Op::AllocVal(t, p) => {
            let size = TY_SIZES[t as usize];
            let bytes = pat_bytes(p, 0, size);
            with_ty!(t, T => {
                let v: T = bytes.pread_with(0, scroll::LE).map_err(|e| format!("harness pread: {e}"))?;
                let w = MemoryWriter::<T>::alloc_with_val(&mut r.buf, v).map_err(|e| format!("alloc_with_val failed: {e}"))?;
                loc_ok(&w.location(), old_len, size)?;
                if w.position as usize != old_len || w.size != size { return Err(format!("slot handle ({}, {}) != ({old_len}, {size})", w.position, w.size)); }
                r.slots.push((t, Box::new(w)));
            });
            m.buf.extend_from_slice(&bytes);
            m.slots.push((t, old_len));
        }
        Op::SetValue(k, p) => {
            let idx = m.slots.len() - 1 - k as usize;
            let (t, off) = m.slots[idx];
            let size = TY_SIZES[t as usize];
            let bytes = pat_bytes(p, 7, size);
            with_ty!(t, T => {
                let v: T = bytes.pread_with(0, scroll::LE).map_err(|e| format!("harness pread: {e}"))?;
                let w = r.slots[idx].1.downcast_mut::<MemoryWriter<T>>().ok_or("harness: slot type")?;
                w.set_value(&mut r.buf, v).map_err(|e| format!("set_value failed: {e}"))?;
            });
            m.buf[off..off + size].copy_from_slice(&bytes);
        }
        Op::AllocArray(t, n) => {
            let size = TY_SIZES[t as usize];
            let n = n as usize;
            with_ty!(t, T => {
                let w = MemoryArrayWriter::<T>::alloc_array(&mut r.buf, n).map_err(|e| format!("alloc_array failed: {e}"))?;
                loc_ok(&w.location(), old_len, n * size)?;
                for i in 0..n { loc_ok(&w.location_of_index(i), old_len + i * size, size).map_err(|e| format!("location_of_index({i}): {e}"))?; }
                r.arrays.push((t, n, Box::new(w)));
            });
            m.buf.extend(std::iter::repeat(0).take(n * size));
            m.arrays.push((t, old_len, n));
        }
        Op::FromArray(t, n, p) => {
            let size = TY_SIZES[t as usize];
            let n = n as usize;
            let mut all = Vec::new();
            with_copy_ty!(t, T => {
                let mut vals: Vec<T> = Vec::new();
                for i in 0..n {
                    let b = pat_bytes(p, i, size);
                    vals.push(b.pread_with(0, scroll::LE).map_err(|e| format!("harness pread: {e}"))?);
                    all.extend_from_slice(&b);
                }
                let w = MemoryArrayWriter::<T>::alloc_from_array(&mut r.buf, &vals).map_err(|e| format!("alloc_from_array failed: {e}"))?;
                loc_ok(&w.location(), old_len, n * size)?;
                for i in 0..n { loc_ok(&w.location_of_index(i), old_len + i * size, size).map_err(|e| format!("location_of_index({i}): {e}"))?; }
                r.arrays.push((t, n, Box::new(w)));
            });
            m.buf.extend_from_slice(&all);
            m.arrays.push((t, old_len, n));
        }
        Op::FromIter(t, n, p) => {
            let size = TY_SIZES[t as usize];
            let n = n as usize;
            let mut all = Vec::new();
            with_ty!(t, T => {
                let mut vals: Vec<T> = Vec::new();
                for i in 0..n {
                    let b = pat_bytes(p, i, size);
                    vals.push(b.pread_with(0, scroll::LE).map_err(|e| format!("harness pread: {e}"))?);
                    all.extend_from_slice(&b);
                }
                let w = MemoryArrayWriter::<T>::alloc_from_iter(&mut r.buf, vals).map_err(|e| format!("alloc_from_iter failed: {e}"))?;
                loc_ok(&w.location(), old_len, n * size)?;
                for i in 0..n { loc_ok(&w.location_of_index(i), old_len + i * size, size).map_err(|e| format!("location_of_index({i}): {e}"))?; }
                r.arrays.push((t, n, Box::new(w)));
            });
            m.buf.extend_from_slice(&all);
            m.arrays.push((t, old_len, n));
        }
        Op::SetAt(k, which, p) => {
            let idx = m.arrays.len() - 1 - k as usize;
            let (t, off, n) = m.arrays[idx];
            let size = TY_SIZES[t as usize];
            let i = match which {
                0 => 0,
                1 => n - 1,
                _ => n / 2,
            };
            let bytes = pat_bytes(p, 40 + i, size);
            with_ty!(t, T => {
                let v: T = bytes.pread_with(0, scroll::LE).map_err(|e| format!("harness pread: {e}"))?;
                let w = r.arrays[idx].2.downcast_mut::<MemoryArrayWriter<T>>().ok_or("harness: array type")?;
                w.set_value_at(&mut r.buf, v, i).map_err(|e| format!("set_value_at failed: {e}"))?;
            });
            m.buf[off + i * size..off + (i + 1) * size].copy_from_slice(&bytes);
        }
        Op::Bytes(n) => {
            let bytes = pat_bytes(3, 90, n as usize);
            let w = MemoryArrayWriter::<u8>::write_bytes(&mut r.buf, &bytes);
            loc_ok(&w.location(), old_len, n as usize)?;
            m.buf.extend_from_slice(&bytes);
        }
        Op::Str(i) => {
            let s = STRS[i as usize];
            let loc = write_string_to_location(&mut r.buf, s).map_err(|e| format!("write_string failed: {e}"))?;
            let units: Vec<u16> = s.encode_utf16().collect();
            loc_ok(&loc, old_len, 4 + 2 * units.len())?;
            m.buf.extend_from_slice(&((2 * units.len()) as u32).to_le_bytes());
            for u in units {
                m.buf.extend_from_slice(&u.to_le_bytes());
            }
        }
    }
    // the law common to all operations: real buffer == model buffer (earlier bytes untouched,
    // appended bytes exactly the serialization, set_* touching only its slot)
    let real: &[u8] = &r.buf;
    if real.len() != m.buf.len() {
        return Err(format!("buffer grew to {} bytes, law says {}", real.len(), m.buf.len()));
    }
    if real != &m.buf[..] {
        let first = real.iter().zip(m.buf.iter()).position(|(a, b)| a != b).unwrap();
        let region = if first < old_len { "an EARLIER byte" } else { "an appended byte" };
        return Err(format!("byte {first} ({region}) is {:#x}, law says {:#x}", real[first], m.buf[first]));
    }
    if r.buf.position() != m.buf.len() as u64 {
        return Err("Buffer::position() disagrees with its length".into());
    }
    Ok(())
}

/// Execute a whole history; Err((index of failing op, message)).
fn run_history(h: &[Op]) -> Result<Model, (usize, String)> {
    let mut r = Real { buf: Buffer::with_capacity(0), slots: Vec::new(), arrays: Vec::new() };
    let mut m = Model::default();
    for (i, op) in h.iter().enumerate() {
        if !enabled(*op, &m) {
            return Err((i, "harness: disabled op in history".into()));
        }
        match guarded(|| apply(*op, &mut r, &mut m)) {
            Ok(Ok(())) => {}
            Ok(Err(e)) => return Err((i, e)),
            Err(p) => return Err((i, format!("panic: {p}"))),
        }
    }
    Ok(m)
}

fn alphabet(core_only: bool) -> Vec<Op> {
    let mut v = Vec::new();
    if core_only {
        // simplest-first
        v.extend([Op::Alloc(0), Op::Alloc(2), Op::Alloc(4)]);
        v.extend([Op::AllocVal(1, 1), Op::AllocVal(3, 1), Op::AllocVal(5, 1), Op::AllocVal(8, 1)]);
        v.extend([Op::SetValue(0, 2), Op::SetValue(1, 3)]);
        v.extend([Op::AllocArray(1, 0), Op::AllocArray(4, 3), Op::AllocArray(8, 1)]);
        v.extend([Op::FromArray(6, 3, 4), Op::FromIter(16, 2, 5)]);
        v.extend([Op::SetAt(0, 0, 6), Op::SetAt(0, 1, 7), Op::SetAt(1, 2, 8)]);
        v.extend([Op::Bytes(0), Op::Bytes(5), Op::Str(2)]);
        return v;
    }
    for t in [0u8, 1, 2, 3, 4, 7] {
        v.push(Op::Alloc(t));
    }
    for t in 0..NTYPES {
        v.push(Op::AllocVal(t, 1));
    }
    v.extend([Op::SetValue(0, 2), Op::SetValue(1, 3)]);
    for t in [1u8, 4, 8] {
        for n in [0u8, 1, 3] {
            v.push(Op::AllocArray(t, n));
        }
    }
    for t in [0u8, 6] {
        for n in [0u8, 3] {
            v.push(Op::FromArray(t, n, 4));
        }
    }
    for t in [9u8, 14] {
        for n in [0u8, 2] {
            v.push(Op::FromIter(t, n, 5));
        }
    }
    v.extend([Op::SetAt(0, 0, 6), Op::SetAt(0, 1, 7), Op::SetAt(1, 0, 8), Op::SetAt(1, 2, 9)]);
    v.extend([Op::Bytes(0), Op::Bytes(1), Op::Bytes(5)]);
    v.extend([Op::Str(0), Op::Str(1), Op::Str(2), Op::Str(3)]);
    v
}

/// Every entry point x every format type (shallow alphabet: the deep alphabets sample types per entry point).
fn type_alphabet() -> Vec<Op> {
    let mut v = Vec::new();
    for t in 0..NTYPES {
        v.push(Op::Alloc(t));
        v.push(Op::AllocVal(t, 1));
        for n in [0u8, 1, 3] {
            v.push(Op::AllocArray(t, n));
            v.push(Op::FromIter(t, n, 5));
        }
    }
    for t in [0u8, 1, 2, 3, 5, 6] {
        for n in [0u8, 1, 3] {
            v.push(Op::FromArray(t, n, 4));
        }
    }
    v.extend([Op::SetValue(0, 2), Op::SetValue(1, 3), Op::SetAt(0, 0, 6), Op::SetAt(0, 1, 7), Op::SetAt(1, 2, 9), Op::Bytes(1), Op::Str(2)]);
    v
}

static FILL_LATER: std::sync::atomic::AtomicU64 = std::sync::atomic::AtomicU64::new(0);

/// a fill-later op that targets a slot/array which is NOT the last thing in the buffer
fn is_fill_later(op: Op, m: &Model) -> bool {
    match op {
        Op::SetValue(k, _) => {
            let (t, off) = m.slots[m.slots.len() - 1 - k as usize];
            off + TY_SIZES[t as usize] < m.buf.len()
        }
        Op::SetAt(k, _, _) => {
            let (t, off, n) = m.arrays[m.arrays.len() - 1 - k as usize];
            off + n * TY_SIZES[t as usize] < m.buf.len()
        }
        _ => false,
    }
}

struct Fail {
    hist: Vec<Op>,
    at: usize,
    msg: String,
}

/// One BFS layer in parallel: expand every frontier history by every enabled op.
fn expand_layer(frontier: &[Vec<Op>], alpha: &[Op], keep_hist: bool) -> (Vec<(u64, Vec<Op>)>, u64, Vec<Fail>) {
    let nthreads = std::thread::available_parallelism().map(|n| n.get()).unwrap_or(4).min(16);
    let chunk = frontier.len().div_ceil(nthreads).max(1);
    let mut results: Vec<(Vec<(u64, Vec<Op>)>, u64, Vec<Fail>)> = Vec::new();
    std::thread::scope(|s| {
        let handles: Vec<_> = frontier
            .chunks(chunk)
            .map(|part| {
                s.spawn(move || {
                    let mut out = Vec::new();
                    let mut fails = Vec::new();
                    let mut transitions = 0u64;
                    let mut fill_later = 0u64;
                    for h in part {
                        let base = match run_history(h) {
                            Ok(m) => m,
                            Err(_) => continue,
                        };
                        for op in alpha {
                            if !enabled(*op, &base) {
                                continue;
                            }
                            let mut h2 = h.clone();
                            h2.push(*op);
                            transitions += 1;
                            if is_fill_later(*op, &base) {
                                fill_later += 1;
                            }
                            match run_history(&h2) {
                                Ok(m) => out.push((m.key(), if keep_hist { h2 } else { Vec::new() })),
                                Err((at, msg)) => {
                                    if fails.len() < 50 {
                                        fails.push(Fail { hist: h2, at, msg });
                                    }
                                }
                            }
                        }
                    }
                    FILL_LATER.fetch_add(fill_later, std::sync::atomic::Ordering::Relaxed);
                    (out, transitions, fails)
                })
            })
            .collect();
        for h in handles {
            results.push(h.join().expect("worker thread"));
        }
    });
    let mut out = Vec::new();
    let mut tr = 0;
    let mut fails = Vec::new();
    for (o, t, f) in results {
        out.extend(o);
        tr += t;
        fails.extend(f);
    }
    (out, tr, fails)
}

fn bfs(rep: &mut Report, alpha: &[Op], depth: usize, label: &str) {
    let mut seen: HashSet<u64> = HashSet::new();
    seen.insert(Model::default().key());
    let mut frontier: Vec<Vec<Op>> = vec![vec![]];
    let mut states = 1u64;
    let mut transitions = 0u64;
    let mut max_depth = 0;
    for d in 1..=depth {
        let last = d == depth;
        let (next, tr, fails) = expand_layer(&frontier, alpha, !last);
        transitions += tr;
        for f in fails {
            let op = f.hist[f.at];
            let case = json!({"history": f.hist.iter().map(|o| o.to_json()).collect::<Vec<_>>()});
            rep.violation(&format!("{}", op.class()), &format!("op #{} {:?}: {}", f.at, op, f.msg), case);
        }
        let mut nf = Vec::new();
        if last {
            // final layer: only count distinct new states (sort+dedup keeps memory flat)
            if let Some((_, h)) = frontier.get(frontier.len() / 3).map(|h| (0, h.clone())) {
                rep.sample(json!({"history_prefix_at_last_layer": h.iter().map(|o| o.to_json()).collect::<Vec<_>>()}));
            }
            let mut keys: Vec<u64> = next.into_iter().map(|(k, _)| k).filter(|k| !seen.contains(k)).collect();
            keys.sort_unstable();
            keys.dedup();
            states += keys.len() as u64;
            if !keys.is_empty() {
                max_depth = d;
            }
            for k in keys.iter().take(50_000) {
                rep.outcome(*k);
            }
            break;
        }
        for (k, h) in next {
            if seen.insert(k) {
                states += 1;
                nf.push(h);
            }
        }
        if !nf.is_empty() {
            max_depth = d;
        }
        frontier = nf;
        if frontier.is_empty() {
            break;
        }
    }
    if let Some(h) = frontier.get(frontier.len() / 3) {
        rep.sample(json!({"history": h.iter().map(|o| o.to_json()).collect::<Vec<_>>()}));
    }
    rep.states += states;
    rep.transitions += transitions;
    rep.traces += transitions;
    rep.evaluations += transitions;
    rep.set(&format!("bfs_{label}"), json!({"alphabet": alpha.len(), "depth": depth, "max_depth_reached": max_depth, "states": states, "transitions": transitions}));
    for k in seen.iter().take(100_000) {
        rep.outcome(*k);
    }
}

fn check_string(rep: &mut Report, prefix_len: usize, s: &str) {
    rep.evaluations += 1;
    let r = guarded(|| {
        let mut buf = Buffer::with_capacity(0);
        let pre = pat_bytes(9, 0, prefix_len);
        let _ = MemoryArrayWriter::<u8>::write_bytes(&mut buf, &pre);
        let loc = write_string_to_location(&mut buf, s).map_err(|e| format!("error: {e}"))?;
        let bytes: Vec<u8> = buf.into();
        let units: Vec<u16> = s.encode_utf16().collect();
        loc_ok(&loc, prefix_len, 4 + 2 * units.len())?;
        if bytes.len() != prefix_len + 4 + 2 * units.len() {
            return Err(format!("buffer length {} != {}", bytes.len(), prefix_len + 4 + 2 * units.len()));
        }
        if bytes[..prefix_len] != pre[..] {
            return Err("earlier bytes altered".into());
        }
        let declared = u32::from_le_bytes(bytes[prefix_len..prefix_len + 4].try_into().unwrap()) as usize;
        if declared != 2 * units.len() {
            return Err(format!("declared byte length {declared} != {}", 2 * units.len()));
        }
        let got: Vec<u16> = bytes[prefix_len + 4..].chunks(2).map(|c| u16::from_le_bytes([c[0], c[1]])).collect();
        match String::from_utf16(&got) {
            Ok(d) if d == s => Ok(()),
            Ok(d) => Err(format!("decodes to {d:?}")),
            Err(_) => Err("stored units are not well-formed UTF-16".into()),
        }
    });
    let res = match r {
        Ok(x) => x,
        Err(p) => Err(format!("panic: {p}")),
    };
    if let Err(e) = res {
        let cps: Vec<u32> = s.chars().map(|c| c as u32).collect();
        rep.violation(&format!("string/{}cp", cps.len()), &format!("string {cps:x?} after {prefix_len} bytes: {e}"), json!({"string": cps, "prefix": prefix_len}));
    }
}

fn self_check_roundtrip(rep: &mut Report) {
    // the oracle's assumption: for every type, reading the pattern and serializing it gives the pattern
    for t in 0..NTYPES {
        let size = TY_SIZES[t as usize];
        let bytes = pat_bytes(1, 0, size);
        let mut out = vec![0u8; size];
        let ok = with_ty!(t, T => {
            let v: Result<T, _> = bytes.pread_with(0, scroll::LE);
            match v { Ok(v) => out.pwrite_with(v, 0, scroll::LE).map(|n| n == size).unwrap_or(false), Err(_) => false }
        });
        if !ok || out != bytes {
            rep.machinery(format!("type {} does not round-trip its byte pattern; oracle assumption broken", TY_NAMES[t as usize]));
        }
    }
    // hand-written encoders for primitives and three representative structs (byte-exact law)
    let mut buf = Buffer::with_capacity(0);
    let _ = MemoryWriter::<u16>::alloc_with_val(&mut buf, 0x1234);
    let _ = MemoryWriter::<u32>::alloc_with_val(&mut buf, 0xa1b2c3d4);
    let _ = MemoryWriter::<u64>::alloc_with_val(&mut buf, 0x0102030405060708);
    let _ = MemoryWriter::<MDLocationDescriptor>::alloc_with_val(&mut buf, MDLocationDescriptor { data_size: 0x11223344, rva: 0x55667788 });
    let _ = MemoryWriter::<MDRawDirectory>::alloc_with_val(
        &mut buf,
        MDRawDirectory { stream_type: 0x0a0b0c0d, location: MDLocationDescriptor { data_size: 1, rva: 2 } },
    );
    let _ = MemoryWriter::<MDRawThreadName>::alloc_with_val(&mut buf, MDRawThreadName { thread_id: 0xdeadbeef, thread_name_rva: 0x1122334455667788 });
    let got: Vec<u8> = buf.into();
    let mut want = vec![0x34, 0x12, 0xd4, 0xc3, 0xb2, 0xa1, 8, 7, 6, 5, 4, 3, 2, 1];
    want.extend([0x44, 0x33, 0x22, 0x11, 0x88, 0x77, 0x66, 0x55]);
    want.extend([0x0d, 0x0c, 0x0b, 0x0a, 1, 0, 0, 0, 2, 0, 0, 0]);
    want.extend([0xef, 0xbe, 0xad, 0xde, 0x88, 0x77, 0x66, 0x55, 0x44, 0x33, 0x22, 0x11]);
    rep.evaluations += 1;
    if got != want {
        rep.violation("byte-exact/hand-encoded", &format!("hand-encoded little-endian image differs: got {} want {}", mdv_core::hex(&got), mdv_core::hex(&want)), json!({"fixed": "hand"}));
    }
}

pub fn run(ctx: &Ctx, rep: &mut Report) {
    rep.rule = "SEQ: breadth-first over all histories of mem_writer operations up to the depth bound (full 53-letter alphabet, 20-letter core, and a ~170-letter alphabet of every entry point x every one of the 19 format types at depth 2 (thorough 3)), re-executed on a fresh Buffer, dedup on (buffer bytes, slot table, array table); plus every string of <=3 code points over a 14-letter alphabet (incl. blank, newline, tab, ideographic space) after 3 prefix lengths and 4 fill patterns at 47 lengths around 64..4096 / up to 40000 UTF-16 units. nontrivial = distinct (deduplicated state, op) transitions in which a fill-later op (set_value/set_value_at) targets a slot that is followed by other data".into();
    rep.assume("scroll's derived Pread is the inverse of its Pwrite for the POD format structs (checked at start-up for every type; primitives and three structs are checked byte-exact against a hand encoder)");
    if let Some(case) = &ctx.replay {
        if let Some(h) = case.get("history").and_then(|h| h.as_array()) {
            let ops: Option<Vec<Op>> = h.iter().map(Op::from_json).collect();
            match ops {
                Some(ops) => {
                    rep.evaluations += 1;
                    if let Err((at, msg)) = run_history(&ops) {
                        rep.violation(&ops[at].class(), &format!("op #{at} {:?}: {msg}", ops[at]), case.clone());
                    }
                }
                None => rep.machinery("bad history in replay".into()),
            }
        } else if let Some(cps) = case.get("string").and_then(|s| s.as_array()) {
            let s: String = cps.iter().filter_map(|c| c.as_u64().and_then(|c| char::from_u32(c as u32))).collect();
            check_string(rep, case.get("prefix").and_then(|p| p.as_u64()).unwrap_or(0) as usize, &s);
        } else {
            self_check_roundtrip(rep);
        }
        return;
    }
    self_check_roundtrip(rep);
    let full = alphabet(false);
    let core = alphabet(true);
    let (d_full, d_core) = if ctx.tier.is_thorough() { (4, 6) } else { (4, 5) };
    bfs(rep, &full, d_full, "full_alphabet");
    bfs(rep, &core, d_core, "core_alphabet");
    bfs(rep, &type_alphabet(), if ctx.tier.is_thorough() { 3 } else { 2 }, "every_entry_point_x_every_type");
    rep.nontrivial = FILL_LATER.load(std::sync::atomic::Ordering::Relaxed);
    // strings
    let letters: [char; 14] = ['a', '\u{e9}', '\u{20ac}', '\u{0}', '\u{d7ff}', '\u{e000}', '\u{ffff}', '\u{10000}', '\u{1f600}', '\u{10ffff}', ' ', '\n', '\t', '\u{3000}'];
    let mut nstr = 0u64;
    for prefix in [0usize, 1, 5] {
        check_string(rep, prefix, "");
        nstr += 1;
        for a in letters {
            check_string(rep, prefix, &a.to_string());
            nstr += 1;
            for b in letters {
                let s2: String = [a, b].iter().collect();
                check_string(rep, prefix, &s2);
                nstr += 1;
                for c in letters {
                    let s3: String = [a, b, c].iter().collect();
                    check_string(rep, prefix, &s3);
                    nstr += 1;
                }
            }
        }
    }
    // long strings: lengths around multiples of 128 / 256 UTF-16 units, with 1-unit and 2-unit characters and
    // a surrogate pair straddling each boundary
    let mut lens: Vec<usize> = Vec::new();
    for base in [64usize, 128, 256, 384, 512, 1024, 4096] {
        lens.extend(base - 2..=base + 3);
    }
    lens.extend([1000usize, 5000, 32767, 32768, 40000]);
    for n in lens {
        for pat in 0..4 {
            let s: String = match pat {
                0 => "a".repeat(n),
                1 => "\u{e9}".repeat(n),
                2 => "\u{1f600}".repeat(n / 2) + if n % 2 == 1 { "z" } else { "" },
                _ => "b".repeat(n - 1) + "\u{1f980}" + "c",
            };
            check_string(rep, pat, &s);
            nstr += 1;
        }
    }
    rep.set("strings_checked", json!(nstr));
    rep.set("depth", json!({"full": d_full, "core": d_core}));
    rep.exhaustive = true;
}
