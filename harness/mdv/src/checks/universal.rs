//! Cross-check driver: a property's *universal* oracle (one that can judge any successful dump of any
//! quiescent target from the pid, the writer options and the image alone) is applied to every dump
//! that the OTHER checks' explorers produce.  Each check keeps its own purpose-built alphabets; this
//! multiplies every property's explored input space by all of them (target shapes, option tuples,
//! hostile registers / auxv / linker data, library fixtures, argv / descriptor sets, ...).
//!
//! Mechanics: `make_writer` notes (pid, options) per thread, `dump_with` hands every successful image
//! to the installed oracle (after interposition has been disarmed), host explorers run with a sink
//! report (their own verdicts belong to their own check).  Only the first dump of a writer is judged
//! (re-configured writers would make the noted options stale) and dumps taken under injected faults
//! are only shown to oracles that declare themselves fault-tolerant.

use crate::dump::{DumpOpts, DumpResult};
use crate::Ctx;
use mdv_core::mapsref::{parse_maps, Line};
use mdv_core::mdparse::{ctx as off, Dump};
use mdv_core::report::Tier;
use mdv_core::{json, Report, Value};
use std::cell::{Cell, RefCell};
use std::os::unix::fs::FileExt;
use std::sync::atomic::{AtomicBool, AtomicU64, Ordering};
use std::sync::{Mutex, RwLock};

pub type Oracle = fn(i32, &DumpOpts, &[u8]) -> Vec<(String, String)>;

thread_local! {
    static CUR: RefCell<Option<(i32, DumpOpts, u32)>> = const { RefCell::new(None) };
    static DEGRADED: Cell<bool> = const { Cell::new(false) };
    static PENDING: RefCell<Option<Vec<u8>>> = const { RefCell::new(None) };
    static FIRST: Cell<bool> = const { Cell::new(true) };
}
static ORACLE: RwLock<Option<(Oracle, bool, bool)>> = RwLock::new(None);
static FOUND: Mutex<Vec<(String, String, Value)>> = Mutex::new(Vec::new());
static JUDGED: AtomicU64 = AtomicU64::new(0);
static JUDGED_ANY: AtomicU64 = AtomicU64::new(0);
static HOST: RwLock<String> = RwLock::new(String::new());
/// set while host explorers run on behalf of another check: nested cross runs are suppressed
pub static IN_CROSS: AtomicBool = AtomicBool::new(false);
/// C02's cross mode: any dump request that panics, whoever made it, is a finding
static WATCH_PANICS: AtomicBool = AtomicBool::new(false);

/// Cross mode only: host explorers need not park the puppet's main (command-loop) thread before they
/// dump, but the fidelity oracles read the target back afterwards.  Wait (bounded) until the main
/// thread sits in read(2) again, as `Puppet::quiesce` does.
pub fn before_dump() {
    if ORACLE.read().unwrap_or_else(|e| e.into_inner()).is_none() {
        return;
    }
    let Some(pid) = CUR.with(|c| c.borrow().as_ref().map(|(p, _, _)| *p)) else { return };
    // every puppet (whatever executable file it was started from) is a child of this process
    let stat = std::fs::read_to_string(format!("/proc/{pid}/stat")).unwrap_or_default();
    let ppid: i32 = stat.rsplit(')').next().and_then(|r| r.split_whitespace().nth(1)).and_then(|p| p.parse().ok()).unwrap_or(0);
    if ppid != std::process::id() as i32 {
        return;
    }
    // a dead (zombie) or stopped target cannot get any more parked than it is
    let state = stat.rsplit(')').next().and_then(|r| r.trim_start().chars().next()).unwrap_or('?');
    if matches!(state, 'Z' | 'X' | 'T' | 't') {
        return;
    }
    for k in 0..3000 {
        match std::fs::read_to_string(format!("/proc/{pid}/syscall")) {
            Ok(s) if s.starts_with("0 ") => return,
            Ok(s) => {
                if k == 2999 && std::env::var("MDV_DEBUG").is_ok() {
                    eprintln!("DEBUG before_dump: pid {pid} host {} never parked: syscall={s:?} stat={stat:?}", HOST.read().unwrap().clone());
                }
                std::thread::sleep(std::time::Duration::from_millis(1))
            }
            Err(_) => return,
        }
    }
}

/// Is the dump being judged the first one of its writer (with exactly the noted options)?  Oracles that
/// also accept later dumps of a re-used / re-configured writer restrict themselves to their
/// option-independent part then.
pub fn is_first_dump() -> bool {
    FIRST.with(|f| f.get())
}

pub fn current_opts_json() -> Value {
    let host = HOST.read().unwrap_or_else(|e| e.into_inner()).clone();
    CUR.with(|c| c.borrow().as_ref().map(|(pid, o, _)| json!({"cross_host": host, "pid": pid, "opts": o.to_json()}))).unwrap_or(Value::Null)
}

/// A check that re-configures a writer behind `make_writer`'s back (public fields, setters) calls this:
/// the noted options no longer describe the writer, so its dumps are not judged.
pub fn forget_writer() {
    // keep the entry (option-independent oracles still judge the writer's dumps) but mark it used
    CUR.with(|c| {
        if let Some((_, _, n)) = c.borrow_mut().as_mut() {
            *n = n.saturating_add(1000);
        }
    });
}

pub fn note_writer(pid: i32, o: &DumpOpts) {
    CUR.with(|c| *c.borrow_mut() = Some((pid, o.clone(), 0)));
}

/// Mark the dumps of this thread as taken under injected faults (returns the previous value).
pub fn set_degraded(d: bool) -> bool {
    DEGRADED.with(|c| c.replace(d))
}

fn judge_now(bytes: &[u8]) {
    let Some((oracle, tolerant, later_too)) = *ORACLE.read().unwrap_or_else(|e| e.into_inner()) else { return };
    if DEGRADED.with(|d| d.get()) && !tolerant {
        return;
    }
    let cur = CUR.with(|c| {
        let mut b = c.borrow_mut();
        match b.as_mut() {
            Some((pid, o, n)) => {
                *n += 1;
                // oracles that do not look at the options (the fault-tolerant ones: structure, soft-error
                // laws) judge every dump of a writer, also the later ones of a re-used / re-configured writer
                FIRST.with(|f| f.set(*n == 1));
                if *n == 1 || tolerant || later_too {
                    Some((*pid, o.clone()))
                } else {
                    None
                }
            }
            None => None,
        }
    });
    let Some((pid, opts)) = cur else { return };
    JUDGED.fetch_add(1, Ordering::Relaxed);
    let fails = oracle(pid, &opts, bytes);
    if !fails.is_empty() {
        let host = HOST.read().unwrap_or_else(|e| e.into_inner()).clone();
        let mut g = FOUND.lock().unwrap_or_else(|e| e.into_inner());
        for (k, m) in fails {
            if g.len() < 200 {
                g.push((format!("cross/{host}/{k}"), format!("[dump made by the {host} explorer, options {}] {m}", opts.to_json()), json!({"cross_host": host})));
            }
        }
    }
}

/// Called by `dump_with` for every finished dump request.
pub fn after_dump(r: &DumpResult) {
    if ORACLE.read().unwrap_or_else(|e| e.into_inner()).is_none() {
        return;
    }
    // (a panic raised by the harness's own fault-injecting destination, as in C03's "destination panics"
    // schedules, is the injected fault itself, not a panic of the writer)
    if let (DumpResult::Panic(m), true) = (r, WATCH_PANICS.load(Ordering::Relaxed) && !matches!(r, DumpResult::Panic(m) if m.contains("mdv/src/"))) {
        let host = HOST.read().unwrap_or_else(|e| e.into_inner()).clone();
        let opts = CUR.with(|c| c.borrow().as_ref().map(|(_, o, _)| o.to_json())).unwrap_or(Value::Null);
        let loc = m.split("panicked at ").nth(1).unwrap_or(m).split(':').take(2).collect::<Vec<_>>().join(":");
        let mut g = FOUND.lock().unwrap_or_else(|e| e.into_inner());
        if g.len() < 200 {
            g.push((format!("cross/{host}/panic/{loc}"), format!("[dump made by the {host} explorer, options {opts}] dump panicked: {m}"), json!({"cross_host": host})));
        }
    }
    JUDGED_ANY.fetch_add(1, Ordering::Relaxed);
    let DumpResult::Ok(bytes) = r else {
        // a failed request still counts as this writer's first dump
        CUR.with(|c| {
            if let Some((_, _, n)) = c.borrow_mut().as_mut() {
                *n += 1;
            }
        });
        return;
    };
    if crate::env::is_armed() {
        // the oracle's own /proc reads must not go through the armed interposition layer
        PENDING.with(|p| *p.borrow_mut() = Some(bytes.clone()));
    } else {
        judge_now(bytes);
    }
}

/// Called by `env_dump` once interposition is disarmed.
pub fn flush_pending() {
    if let Some(b) = PENDING.with(|p| p.borrow_mut().take()) {
        judge_now(&b);
    }
}

/// Run the named host explorers with `oracle` installed; report what it finds under `rep`'s property.
pub fn run_hosts(rep: &mut Report, tier: Tier, oracle: Oracle, fault_tolerant: bool, hosts: &[&str]) {
    run_hosts_ext(rep, tier, oracle, fault_tolerant, false, hosts)
}

pub fn run_hosts_ext(rep: &mut Report, tier: Tier, oracle: Oracle, fault_tolerant: bool, later_dumps_too: bool, hosts: &[&str]) {
    if IN_CROSS.swap(true, Ordering::SeqCst) {
        return;
    }
    *ORACLE.write().unwrap_or_else(|e| e.into_inner()) = Some((oracle, fault_tolerant, later_dumps_too));
    crate::watch::cross_mode(true);
    let mut per_host = serde_json::Map::new();
    for h in hosts {
        *HOST.write().unwrap_or_else(|e| e.into_inner()) = h.to_string();
        let before = JUDGED.load(Ordering::Relaxed);
        let mut sink = Report::new(h, tier, "model_checking");
        sink.sink = true;
        let ctx = Ctx { tier, replay: None };
        let ok = std::panic::catch_unwind(std::panic::AssertUnwindSafe(|| crate::checks::dispatch(h, &ctx, &mut sink)));
        if ok.is_err() {
            rep.machinery(format!("host explorer {h} panicked while running for {}", rep.prop));
        }
        per_host.insert(h.to_string(), json!(JUDGED.load(Ordering::Relaxed) - before));
    }
    *ORACLE.write().unwrap_or_else(|e| e.into_inner()) = None;
    crate::watch::cross_mode(false);
    IN_CROSS.store(false, Ordering::SeqCst);
    let judged: u64 = per_host.values().filter_map(|v| v.as_u64()).sum();
    rep.evaluations += judged;
    rep.nontrivial += judged;
    rep.set("cross_judged_dumps_per_host_explorer", Value::Object(per_host));
    let found: Vec<(String, String, Value)> = std::mem::take(&mut *FOUND.lock().unwrap_or_else(|e| e.into_inner()));
    for (k, m, c) in found {
        rep.violation(&k, &m, c);
    }
}

/// Replay of a cross finding: the host explorer is run again as a whole with the oracle installed.
pub fn replay(case: &Value, rep: &mut Report, oracle: Oracle, fault_tolerant: bool, later_dumps_too: bool) -> bool {
    let Some(h) = case.get("cross_host").and_then(|h| h.as_str()) else { return false };
    let h = h.to_string();
    run_hosts_ext(rep, Tier::Quick, oracle, fault_tolerant, later_dumps_too, &[h.as_str()]);
    true
}

// ------------------------------------------------------------------------------------------------
// helpers

fn kernel_tids(pid: i32) -> Option<Vec<u32>> {
    let mut v: Vec<u32> = std::fs::read_dir(format!("/proc/{pid}/task")).ok()?.filter_map(|e| e.ok()).filter_map(|e| e.file_name().to_str().and_then(|s| s.parse().ok())).collect();
    v.sort();
    Some(v)
}

fn alive(pid: i32) -> bool {
    match std::fs::read_to_string(format!("/proc/{pid}/stat")) {
        Ok(s) => s.rfind(')').map(|i| !matches!(s[i + 1..].trim_start().chars().next(), Some('Z') | Some('X'))).unwrap_or(false),
        Err(_) => false,
    }
}

fn read_target(pid: i32, addr: u64, len: usize) -> Option<Vec<u8>> {
    let f = std::fs::File::open(format!("/proc/{pid}/mem")).ok()?;
    let mut b = vec![0u8; len];
    let mut got = 0;
    while got < len {
        match f.read_at(&mut b[got..], addr + got as u64) {
            Ok(0) | Err(_) => return None,
            Ok(n) => got += n,
        }
    }
    Some(b)
}

fn maps_of(pid: i32) -> Vec<Line> {
    parse_maps(&std::fs::read(format!("/proc/{pid}/maps")).unwrap_or_default()).unwrap_or_default()
}

// ------------------------------------------------------------------------------------------------
// universal oracles

/// C04 (completeness part): every thread the kernel lists is in the thread list exactly once and
/// nothing else is.  Only sound for targets without null-stack-pointer helper threads and whose
/// threads neither start nor exit (all hosts it is used with).
pub fn c04(pid: i32, _o: &DumpOpts, bytes: &[u8]) -> Vec<(String, String)> {
    let mut fails = Vec::new();
    if !alive(pid) {
        return fails;
    }
    let Some(kt) = kernel_tids(pid) else { return fails };
    let d = Dump::parse(bytes);
    let mut listed: Vec<u32> = d.threads.iter().map(|t| t.tid).collect();
    listed.sort();
    for w in listed.windows(2) {
        if w[0] == w[1] {
            fails.push(("thread-duplicated".into(), format!("thread {} is listed twice", w[0])));
        }
    }
    let soft = d.raw_bytes(bytes, mdv_core::mdparse::ST_MOZ_SOFT_ERRORS).map(|b| String::from_utf8_lossy(b).into_owned()).unwrap_or_default();
    for t in &kt {
        // a sandbox-helper look-alike (null stack pointer) is skipped on purpose and reported as such
        if !listed.contains(t) && soft.contains("DetachSkippedThread") && soft.contains(&t.to_string()) {
            continue;
        }
        if !listed.contains(t) {
            fails.push(("thread-missing".into(), format!("thread {t} of the target is not in the thread list ({} listed, the kernel reports {})", listed.len(), kt.len())));
            break;
        }
    }
    for t in &listed {
        if !kt.contains(t) {
            fails.push(("thread-invented".into(), format!("thread id {t} is listed but is not a thread of the target")));
            break;
        }
    }
    // registers that a parked thread (spinning in the puppet's loop, or blocked in a system call)
    // cannot change: the stack pointer and the callee-saved registers.  Read them again now.
    let crash_tid = _o.crash.as_ref().map(|c| c.tid as u32);
    // (the puppet's main thread is its command loop and need not be parked when a host dumps; list
    // positions judged: 1, 2, around the 20-thread size-limit boundary, the last, and the crash thread's neighbours)
    let n = d.threads.len();
    let cpos = d.threads.iter().position(|t| Some(t.tid) == crash_tid);
    let mut want: Vec<usize> = vec![1, 2, 18, 19, 20, 21, n.saturating_sub(1)];
    if let Some(c) = cpos {
        want.extend([c.saturating_sub(1), c + 1]);
    }
    for (pos, th) in d.threads.iter().enumerate() {
        if !want.contains(&pos) || th.tid == pid as u32 || Some(th.tid) == crash_tid || !kt.contains(&th.tid) {
            continue;
        }
        let Some(cb) = d.loc_bytes(bytes, &th.context) else { continue };
        if cb.len() != off::SIZE {
            continue;
        }
        let Some(now) = regs_now(th.tid as i32) else { continue };
        let pairs: [(&str, usize, u64); 7] = [("rsp", off::RSP, now.rsp), ("rbp", off::RBP, now.rbp), ("rbx", off::RBX, now.rbx), ("r12", off::R12, now.r12), ("r13", off::R13, now.r13), ("r14", off::R14, now.r14), ("r15", 240, now.r15)];
        for (name, o, v) in pairs {
            let got = off::u64_at(cb, o);
            if got != v {
                fails.push((format!("register-differs/{name}"), format!("thread {}: recorded {name} = {got:#x}, the (parked) thread has {v:#x}", th.tid)));
                break;
            }
        }
    }
    fails
}

/// The thread's user registers right now (attach, read, detach).
pub fn regs_now(tid: i32) -> Option<libc::user_regs_struct> {
    unsafe {
        if libc::ptrace(libc::PTRACE_ATTACH, tid, 0, 0) != 0 {
            return None;
        }
        let mut st = 0;
        let mut ok = false;
        for _ in 0..50 {
            if libc::waitpid(tid, &mut st, libc::__WALL) == tid {
                if libc::WIFSTOPPED(st) {
                    if libc::WSTOPSIG(st) == libc::SIGSTOP {
                        ok = true;
                        break;
                    }
                    // some other signal arrived first: pass it on and keep waiting for our stop
                    libc::ptrace(libc::PTRACE_CONT, tid, 0, libc::WSTOPSIG(st));
                } else {
                    return None;
                }
            } else {
                break;
            }
        }
        let mut regs: libc::user_regs_struct = std::mem::zeroed();
        let r = if ok { libc::ptrace(libc::PTRACE_GETREGS, tid, 0, &mut regs as *mut _) } else { -1 };
        libc::ptrace(libc::PTRACE_DETACH, tid, 0, 0);
        if r == 0 {
            Some(regs)
        } else {
            None
        }
    }
}

/// C05: the exception record / blamed thread's entry against the options the writer was given.
pub fn c05(pid: i32, o: &DumpOpts, bytes: &[u8]) -> Vec<(String, String)> {
    if !alive(pid) {
        return vec![];
    }
    let blamed = o.blamed.unwrap_or(pid);
    if let Some(c) = &o.crash {
        if c.tid != blamed {
            return vec![];
        }
    }
    let listed_expected = kernel_tids(pid).map(|k| k.contains(&(blamed as u32))).unwrap_or(false);
    let ctx = o.crash.as_ref().map(|c| (c.signo, c.code, c.addr, c.devs.clone()));
    let mut f = crate::checks::c05e::judge(bytes, blamed, listed_expected, ctx);
    if o.crash.is_none() && listed_expected && blamed != pid {
        f.extend(crate::checks::c05e::judge_truth(bytes, blamed));
    }
    f
}

/// C06 (the part that can be stated from the image and the memory map): for every listed thread whose
/// recorded stack pointer lies in a readable mapping the region is non-empty, starts no higher than
/// the stack pointer, contains it, is only shortened under the size-limit rules, otherwise starts on
/// the stack pointer's page and ends where a mapping ends; bytes from the stack pointer upward are
/// the target's.
pub fn c06(pid: i32, o: &DumpOpts, bytes: &[u8]) -> Vec<(String, String)> {
    let mut fails = Vec::new();
    if !alive(pid) {
        return fails;
    }
    let d = Dump::parse(bytes);
    let maps = maps_of(pid);
    let crash_tid = o.crash.as_ref().map(|c| c.tid as u32);
    for (pos, th) in d.threads.iter().enumerate() {
        let Some(cb) = d.loc_bytes(bytes, &th.context) else { continue };
        if cb.len() != off::SIZE {
            continue;
        }
        let sp = off::u64_at(cb, off::RSP);
        let Some(li) = maps.iter().position(|l| l.start <= sp && sp < l.end) else { continue };
        if maps[li].perms[0] != b'r' {
            continue;
        }
        let start = th.stack_start;
        let len = th.stack.size as u64;
        let tag = format!("thread {} at list position {pos} (sp {sp:#x})", th.tid);
        if len == 0 {
            if o.skip_unref {
                continue; // C20's business
            }
            fails.push(("empty-stack-for-readable-sp".into(), format!("{tag}: no stack captured although sp lies in the readable mapping {}", maps[li].text())));
            continue;
        }
        if start > sp {
            fails.push(("region-starts-above-sp".into(), format!("{tag}: region starts at {start:#x}")));
            continue;
        }
        if sp >= start + len {
            fails.push(("sp-not-contained".into(), format!("{tag}: region [{start:#x}, +{len}) does not contain sp")));
            continue;
        }
        // ends of the mapping run that contains sp (the dumper may have merged contiguous lines)
        let mut ends = vec![maps[li].end];
        let mut j = li;
        while j + 1 < maps.len() && maps[j + 1].start == maps[j].end {
            j += 1;
            ends.push(maps[j].end);
        }
        // shortened = anything less than [page of sp, end of the mapping): cut at the end or at the front
        let shortened = !ends.contains(&(start + len)) || start != sp & !0xfff;
        if shortened {
            if o.size_limit.is_none() {
                fails.push(("shortened-without-limit".into(), format!("{tag}: region [{start:#x}, {:#x}) is neither the whole of [page of sp, end of the mapping) nor allowed to be shorter (no size limit)", start + len)));
            } else if pos < 20 {
                fails.push(("base-thread-shortened".into(), format!("{tag}: one of the first 20 threads was shortened")));
            } else if Some(th.tid) == crash_tid {
                fails.push(("crash-thread-shortened".into(), format!("{tag}: the crash-context thread was shortened")));
            } else if len > 2048 {
                fails.push(("shortened-to-more-than-2k".into(), format!("{tag}: shortened to {len} bytes")));
            }
        }
        if !o.sanitize {
            if let (Some(got), Some(want)) = (d.loc_bytes(bytes, &th.stack), read_target(pid, sp, (start + len - sp) as usize)) {
                if got[(sp - start) as usize..] != want[..] {
                    fails.push(("bytes-differ-from-target".into(), format!("{tag}: captured bytes from sp upward differ from the target's memory")));
                }
            }
        }
    }
    fails
}

/// C07: regions reproduce the target's memory; fully readable requested regions appear exactly; every
/// non-empty stack is a region; the crash instruction-pointer window.
pub fn c07(pid: i32, o: &DumpOpts, bytes: &[u8]) -> Vec<(String, String)> {
    let mut fails = Vec::new();
    if !alive(pid) {
        return fails;
    }
    let d = Dump::parse(bytes);
    let stack_rvas: Vec<u32> = d.threads.iter().filter(|t| t.stack.size > 0).map(|t| t.stack.rva).collect();
    for (i, m) in d.memory.iter().enumerate() {
        if o.sanitize && stack_rvas.contains(&m.loc.rva) {
            continue; // sanitised stacks differ from the target on purpose (C12)
        }
        let Some(got) = d.loc_bytes(bytes, &m.loc) else {
            fails.push(("region-out-of-bounds".into(), format!("memory region #{i} out of bounds")));
            continue;
        };
        match read_target(pid, m.start, got.len()) {
            None => fails.push(("region-not-readable-in-target".into(), format!("memory region #{i} [{:#x}, +{}) cannot be read back from the target", m.start, got.len()))),
            Some(want) if want != got => {
                let first = got.iter().zip(want.iter()).position(|(a, b)| a != b).unwrap();
                fails.push(("region-bytes-differ".into(), format!("memory region #{i} [{:#x}, +{}): byte {first} is {:#x}, the target has {:#x}", m.start, got.len(), got[first], want[first])));
            }
            _ => {}
        }
    }
    if !is_first_dump() {
        // a later dump of a re-used (possibly re-configured) writer: the noted options may be stale, only
        // the fidelity of what IS listed is judged
        return fails;
    }
    let mut avail: Vec<(u64, u64)> = d.memory.iter().map(|m| (m.start, m.loc.size as u64)).collect();
    for (a, l) in &o.app_memory {
        if *l == 0 || *l > (64 << 20) || read_target(pid, *a as u64, *l).is_none() {
            continue; // not (fully) readable: what happens then is C01/C02's business
        }
        match avail.iter().position(|x| x == &(*a as u64, *l as u64)) {
            Some(i) => {
                avail.remove(i);
            }
            None => fails.push(("app-region-missing-or-altered".into(), format!("requested region [{a:#x}, +{l}) is not in the memory list with exactly that address and length"))),
        }
    }
    for th in &d.threads {
        if th.stack.size > 0 && !d.memory.iter().any(|m| m.start == th.stack_start && m.loc.size == th.stack.size && m.loc.rva == th.stack.rva) {
            fails.push(("stack-not-in-memory-list".into(), format!("stack of thread {} is not in the memory list", th.tid)));
        }
    }
    // (a crash context for a thread that is not a thread of the target is a caller error: the writer
    // reads the window through that thread id, which then names another process or nothing)
    let crash_in_target = o.crash.as_ref().map(|c| kernel_tids(pid).map(|k| k.contains(&(c.tid as u32)) && k.contains(&(o.blamed.unwrap_or(pid) as u32))).unwrap_or(false)).unwrap_or(false);
    if let (Some(c), true) = (&o.crash, crash_in_target) {
        let vals = crate::checks::c05::vals_for(&c.devs);
        let ip = vals[crate::dump::DIM_RIP];
        let maps = maps_of(pid);
        if let Some(li) = maps.iter().position(|l| l.start <= ip && ip < l.end) {
            let l = &maps[li];
            // the dumper clips to ITS mapping, which may be a merge of contiguous memory-map lines:
            // any start / end of the contiguous run around the line is an acceptable clip bound
            let mut starts = vec![l.start];
            let mut j = li;
            while j > 0 && maps[j - 1].end == maps[j].start {
                j -= 1;
                starts.push(maps[j].start);
            }
            let mut ends = vec![l.end];
            let mut j = li;
            while j + 1 < maps.len() && maps[j + 1].start == maps[j].end {
                j += 1;
                ends.push(maps[j].end);
            }
            let ok = starts.iter().any(|s| {
                ends.iter().any(|e| {
                    let (ws, we) = ((*s).max(ip.saturating_sub(128)), (*e).min(ip.saturating_add(128)));
                    d.memory.iter().any(|m| m.start == ws && m.loc.size as u64 == we - ws)
                })
            });
            if l.perms[0] == b'r' && !ok {
                let (ws, we) = (l.start.max(ip.saturating_sub(128)), l.end.min(ip.saturating_add(128)));
                let near: Vec<String> = d.memory.iter().filter(|m| m.start < we + 512 && m.start + m.loc.size as u64 + 512 > ws).map(|m| format!("[{:#x}, +{})", m.start, m.loc.size)).collect();
                fails.push(("ip-window-wrong".into(), format!("expected a window of up to 128 bytes on either side of the crash instruction pointer {ip:#x}, clipped to its mapping ({}), the memory list has {near:?} there", l.text())));
            }
        }
    }
    fails
}

/// C08: the module list against the target's memory map, the mapped files and the caller's user mappings.
pub fn c08(pid: i32, o: &DumpOpts, bytes: &[u8]) -> Vec<(String, String)> {
    if !alive(pid) {
        return vec![];
    }
    // entry point in force: the caller's direct value if non-zero, the kernel's AT_ENTRY otherwise
    let kernel_entry = std::fs::read(format!("/proc/{pid}/auxv")).ok().and_then(|a| a.chunks_exact(16).find(|c| u64::from_le_bytes(c[..8].try_into().unwrap()) == 9).map(|c| u64::from_le_bytes(c[8..].try_into().unwrap()))).unwrap_or(0);
    let entry = o.direct_auxv.map(|a| a.3).filter(|e| *e != 0).unwrap_or(kernel_entry);
    crate::checks::c08::judge_modules(pid, &o.user_mappings, entry, &[], true, bytes).0
}

/// C12 (the part that does not depend on how the writer merged memory-map lines): with sanitising on,
/// bytes below the stack pointer are zero; every word at or above it is either the target's word or
/// the sentinel; words that qualify for certain (small integers, addresses inside the line that holds
/// the stack pointer, addresses inside an executable line) are unchanged; words that certainly do not
/// qualify (not a small integer, in no mapping at all) are the sentinel.
pub fn c12(pid: i32, o: &DumpOpts, bytes: &[u8]) -> Vec<(String, String)> {
    const SENTINEL: u64 = 0x0defaced0defaced;
    let mut fails = Vec::new();
    if !o.sanitize || !alive(pid) {
        return fails;
    }
    let d = Dump::parse(bytes);
    let maps = maps_of(pid);
    for (pos, th) in d.threads.iter().enumerate() {
        if th.stack.size == 0 {
            continue;
        }
        let (Some(cb), Some(got)) = (d.loc_bytes(bytes, &th.context), d.loc_bytes(bytes, &th.stack)) else { continue };
        if cb.len() != off::SIZE {
            continue;
        }
        let sp = off::u64_at(cb, off::RSP);
        let start = th.stack_start;
        let len = got.len() as u64;
        let Some(want) = read_target(pid, start, got.len()) else { continue };
        let tag = format!("thread {} at list position {pos} (sp {sp:#x}, region [{start:#x}, +{len}))", th.tid);
        let sp_off = if sp >= start && sp < start + len { (sp - start) as usize } else { 0 };
        if let Some(i) = got[..sp_off].iter().position(|b| *b != 0) {
            fails.push(("bytes-below-sp-not-zero".into(), format!("{tag}: byte {i} below the stack pointer is {:#x}", got[i])));
            continue;
        }
        let own = maps.iter().find(|l| l.start <= sp && sp < l.end).map(|l| (l.start, l.end));
        let mut o8 = (sp_off + 7) & !7;
        // the first word may straddle sp when sp is not word aligned inside the copy: start at the aligned offset
        while o8 + 8 <= got.len() {
            let g = u64::from_le_bytes(got[o8..o8 + 8].try_into().unwrap());
            let w = u64::from_le_bytes(want[o8..o8 + 8].try_into().unwrap());
            if g != w && g != SENTINEL {
                fails.push(("word-neither-kept-nor-sentinel".into(), format!("{tag}: word at {:#x} is {g:#x}, the target has {w:#x}", start + o8 as u64)));
                break;
            }
            let small = (w as i64).unsigned_abs() <= 4096;
            let in_own = own.map(|(s, e)| w >= s && w < e).unwrap_or(false);
            let line = maps.iter().find(|l| l.start <= w && w < l.end);
            let in_exec = line.map(|l| l.perms[2] == b'x').unwrap_or(false);
            if (small || in_own || in_exec) && g != w {
                fails.push(("qualifying-word-changed".into(), format!("{tag}: word {w:#x} at {:#x} qualifies (small integer / own stack / executable mapping) but was replaced", start + o8 as u64)));
                break;
            }
            if !small && line.is_none() && g != SENTINEL && w != SENTINEL {
                fails.push(("nonqualifying-word-survived".into(), format!("{tag}: word {w:#x} at {:#x} points into no mapping and is not a small integer, yet it survived", start + o8 as u64)));
                break;
            }
            o8 += 8;
        }
        if got[o8..].iter().any(|b| *b != 0) {
            fails.push(("trailing-partial-word-not-zero".into(), format!("{tag}: the trailing partial word is not zero")));
        }
    }
    fails
}

/// C20 (the part that does not depend on how the writer merged memory-map lines): with stack skipping
/// on and a principal address inside a mapping, a thread whose instruction pointer or one of whose
/// aligned stack words (at or above sp) lies inside the memory-map LINE holding the principal address
/// keeps its stack; a thread with neither inside the whole contiguous run of lines around it loses
/// it; records and contexts stay.  (Between the two the answer depends on the merge and is left to C08/C13.)
pub fn c20(pid: i32, o: &DumpOpts, bytes: &[u8]) -> Vec<(String, String)> {
    let mut fails = Vec::new();
    let (true, Some(pa)) = (o.skip_unref, o.principal) else { return fails };
    if !alive(pid) {
        return fails;
    }
    let maps = maps_of(pid);
    let pa = pa as u64;
    let Some(li) = maps.iter().position(|l| l.start <= pa && pa < l.end) else { return fails };
    let (nlo, nhi) = (maps[li].start, maps[li].end);
    let (mut a, mut b) = (li, li);
    while a > 0 && maps[a - 1].end == maps[a].start {
        a -= 1;
    }
    while b + 1 < maps.len() && maps[b + 1].start == maps[b].end {
        b += 1;
    }
    let (wlo, whi) = (maps[a].start, maps[b].end);
    let d = Dump::parse(bytes);
    for th in &d.threads {
        let Some(cb) = d.loc_bytes(bytes, &th.context) else {
            fails.push(("context-missing".into(), format!("thread {} has no CPU context", th.tid)));
            continue;
        };
        if cb.len() != off::SIZE {
            continue;
        }
        let (sp, ip) = (off::u64_at(cb, off::RSP), off::u64_at(cb, off::RIP));
        let Some(sl) = maps.iter().find(|l| l.start <= sp && sp < l.end) else { continue };
        if sl.perms[0] != b'r' {
            continue;
        }
        let Some(mem) = read_target(pid, sp, (sl.end - sp) as usize) else { continue };
        let mut sure_in = ip >= nlo && ip < nhi;
        let mut maybe_in = ip >= wlo && ip < whi;
        // with the size limit engaged a stack may have been cut to the 2 KiB chunk holding sp before the
        // filter looked at it: only references inside that chunk are certain then
        let certain_len = if o.size_limit.is_some() { (2048 - (sp & 2047)) as usize } else { usize::MAX };
        let mut o8 = (((sp + 7) & !7) - sp) as usize;
        while o8 + 8 <= mem.len() {
            let w = u64::from_le_bytes(mem[o8..o8 + 8].try_into().unwrap());
            if o8 + 8 <= certain_len {
                sure_in |= w >= nlo && w < nhi;
            }
            maybe_in |= w >= wlo && w < whi;
            o8 += 8;
        }
        let included = th.stack.size > 0;
        if sure_in && !included {
            if std::env::var("MDV_DEBUG").is_ok() {
                let soft = d.raw_bytes(bytes, mdv_core::mdparse::ST_MOZ_SOFT_ERRORS).map(|b| String::from_utf8_lossy(b).into_owned()).unwrap_or_default();
                let ips: Vec<String> = d.threads.iter().map(|t| d.loc_bytes(bytes, &t.context).map(|c| format!("{}:ip={:#x},sp={:#x},stack={}", t.tid, off::u64_at(c, off::RIP), off::u64_at(c, off::RSP), t.stack.size)).unwrap_or_default()).collect();
                eprintln!("DEBUG c20: tid {} pid {pid} pa {pa:#x} line {} threads {:?} soft {}", th.tid, maps[li].text(), ips, soft.replace('\n', " "));
            }
            fails.push(("stack-dropped-but-referenced".into(), format!("thread {} (sp {sp:#x}, ip {ip:#x}) references the principal mapping {} but its stack was dropped", th.tid, maps[li].text())));
        }
        if !maybe_in && included {
            fails.push(("stack-kept-but-unreferenced".into(), format!("thread {} (sp {sp:#x}, ip {ip:#x}) references nothing in [{wlo:#x}, {whi:#x}) around the principal address but its stack was kept", th.tid)));
        }
    }
    fails
}

/// C15: names pair listed threads with what the kernel reports.
pub fn c15(pid: i32, _o: &DumpOpts, bytes: &[u8]) -> Vec<(String, String)> {
    if !alive(pid) {
        return vec![];
    }
    crate::checks::c15::judge_pid(pid, bytes, false)
}

/// C18: raw streams, memory-info list and handle stream mirror /proc.
pub fn c18(pid: i32, o: &DumpOpts, bytes: &[u8]) -> Vec<(String, String)> {
    if !alive(pid) {
        return vec![];
    }
    // The writer reads the per-process files through /proc/<blamed thread>/ (as Breakpad does), which is
    // the target's view only when the blamed thread belongs to the target.  A caller that blames a
    // thread of another process is outside C18's quantifier (it ranges over targets).
    let blamed = o.blamed.unwrap_or(pid) as u32;
    if !kernel_tids(pid).map(|k| k.contains(&blamed)).unwrap_or(false) {
        return vec![];
    }
    crate::checks::c18::proc_mirror(pid, bytes)
}

/// C02 (cross mode): nothing to say about a returned image — the finding is a panic, recorded by
/// `after_dump` for every request (successful or not), and a hang, caught by the watchdog.
pub fn c02(_pid: i32, _o: &DumpOpts, _bytes: &[u8]) -> Vec<(String, String)> {
    Vec::new()
}

pub fn watch_panics(on: bool) {
    WATCH_PANICS.store(on, Ordering::Relaxed);
}

pub fn requests_seen() -> u64 {
    JUDGED_ANY.load(Ordering::Relaxed)
}

/// C09 (cross mode): like C02 it has nothing to say about the returned image alone; its finding is a
/// destination that does not hold exactly that image (`dest_check`, called by the dump drivers that own
/// an in-memory destination).
pub fn c09(_pid: i32, _o: &DumpOpts, _bytes: &[u8]) -> Vec<(String, String)> {
    Vec::new()
}

static WATCH_DEST: AtomicBool = AtomicBool::new(false);

pub fn watch_dest(on: bool) {
    WATCH_DEST.store(on, Ordering::Relaxed);
}

/// The destination of a successful, fault-free dump must hold exactly the returned image from its
/// starting position on and nothing beyond it.
pub fn dest_check(r: &DumpResult, dest: &[u8], start: usize) {
    if !WATCH_DEST.load(Ordering::Relaxed) {
        return;
    }
    let DumpResult::Ok(img) = r else { return };
    let what = if dest.len() != start + img.len() {
        Some(format!("the destination holds {} bytes from the starting position on, the returned image has {}", dest.len().saturating_sub(start), img.len()))
    } else {
        (0..img.len()).find(|i| dest[start + i] != img[*i]).map(|i| format!("byte {i} of the returned image is {:#x}, the destination holds {:#x}", img[i], dest[start + i]))
    };
    if let Some(m) = what {
        let host = HOST.read().unwrap_or_else(|e| e.into_inner()).clone();
        let opts = CUR.with(|c| c.borrow().as_ref().map(|(_, o, _)| o.to_json())).unwrap_or(Value::Null);
        let mut g = FOUND.lock().unwrap_or_else(|e| e.into_inner());
        if g.len() < 200 {
            g.push((format!("cross/{host}/destination-differs-from-returned-image"), format!("[dump made by the {host} explorer, options {opts}] {m}"), json!({"cross_host": host})));
        }
    }
}

/// C01: structure (fault-tolerant: any successful dump).
pub fn c01(_pid: i32, _o: &DumpOpts, bytes: &[u8]) -> Vec<(String, String)> {
    crate::checks::c01::judge(bytes).into_iter().map(|e| (format!("structure/{}", crate::shapes::classify(&e)), e)).collect()
}

/// C11: the universal soft-error laws (fault-tolerant).
pub fn c11(_pid: i32, _o: &DumpOpts, bytes: &[u8]) -> Vec<(String, String)> {
    crate::checks::c11::soft_error_laws(bytes).into_iter().map(|e| (e.split(':').next().unwrap_or("law").to_string(), e)).collect()
}
