//! C14 — ELF identification is total and agrees with an independent reader.
//!
//! LAT: base images (the crate's TINY_ELF + builder-made 64/32-bit, LE/BE, with/without PT_NOTE,
//! section note, SONAME, section headers, long text, ABI note first) x every header field x 16
//! boundary values (1 deviation; thorough: 2), every truncation, every byte x {0x00, 0xFF}: the
//! readers must not panic. Base images and every installed ELF file: build id and SONAME must
//! equal what the independent reader (mdv_core::elfref) finds.

use crate::checks::guarded;
use crate::Ctx;
use mdv_core::elfbuild::{build, read_field, write_field, Built, Spec};
use mdv_core::elfref::ElfRef;
use mdv_core::{json, Report, Value};
use minidump_writer::module_reader::{BuildId, ModuleReader, ProcessMemory, ReadFromModule, SoName};

pub const TINY_ELF: &[u8] = include_bytes!("tiny_elf.bin");

#[derive(Debug, Clone, PartialEq)]
pub struct Ident {
    pub build_id: Option<Vec<u8>>,
    pub soname: Option<String>,
}

/// Run every public reader entry point on a byte image. Err = panic message.
pub fn subject(bytes: &[u8]) -> Result<Ident, String> {
    guarded(|| {
        let b = BuildId::read_from_module(ProcessMemory::from(bytes)).ok().map(|b| b.0);
        let s = SoName::read_from_module(ProcessMemory::from(bytes)).ok().map(|s| s.0);
        // the individual strategies are public too
        if let Ok(mut r) = ModuleReader::new(ProcessMemory::from(bytes)) {
            let _ = r.build_id_from_program_headers();
            let _ = r.build_id_from_section();
            let _ = r.build_id_generate_from_text();
            let _ = r.soname_from_program_headers();
            let _ = r.soname_from_sections();
        }
        Ident { build_id: b, soname: s }
    })
}

/// Compare with the independent reader. Returns Some((key, msg)) on disagreement.
pub fn agree(bytes: &[u8], got: &Ident, origin: &str) -> Option<(String, String)> {
    let r = match ElfRef::parse(bytes) {
        Ok(r) => r,
        Err(_) => return None,
    };
    if !r.well_formed() {
        return None;
    }
    if let Some(want) = r.expected_build_id() {
        if got.build_id.as_ref() != Some(&want) {
            let how = if r.note_from_phdr.is_some() { "pt_note" } else if r.note_from_section.is_some() { "section-note" } else { "text-fold" };
            return Some((
                format!("{origin}/build-id/{how}"),
                format!("build id {:?} != independent reader's {} ({how})", got.build_id.as_ref().map(|b| mdv_core::hex(b)), mdv_core::hex(&want)),
            ));
        }
    }
    match r.expected_soname() {
        Some(Some(want)) => {
            if got.soname.as_ref() != Some(&want) {
                return Some((format!("{origin}/soname/value"), format!("SONAME {:?} != independent reader's {want:?}", got.soname)));
            }
        }
        Some(None) => {
            if let Some(s) = &got.soname {
                return Some((format!("{origin}/soname/spurious"), format!("SONAME {s:?} reported for an image without DT_SONAME")));
            }
        }
        None => {}
    }
    None
}

const BOUNDARY: [u64; 15] = [
    0, 1, 2, 0x7FFF_FFFF, 0x8000_0000, 0xFFFF_FFFF, 1 << 32, (1 << 63) - 1, 1 << 63, u64::MAX - 4095, u64::MAX - 7, u64::MAX,
    // size-relative values are added per image: size-1, size, size+1
    0xfffe, 0xffff, 0x1_0000,
];

fn base_images() -> Vec<(String, Built)> {
    let mut v = Vec::new();
    let d = Spec::default();
    let mut add = |name: &str, s: Spec| v.push((name.to_string(), build(&s)));
    add("b64", d.clone());
    add("b32", Spec { is64: false, ..d.clone() });
    add("b64be", Spec { be: true, ..d.clone() });
    add("b32be", Spec { is64: false, be: true, ..d.clone() });
    add("b64-no-ptnote", Spec { pt_note: false, ..d.clone() });
    add("b64-no-secnote", Spec { section_note: false, ..d.clone() });
    add("b64-no-notes", Spec { pt_note: false, section_note: false, ..d.clone() });
    add("b64-no-notes-text3000", Spec { pt_note: false, section_note: false, text_len: 3000, ..d.clone() });
    add("b64-no-notes-text5000", Spec { pt_note: false, section_note: false, text_len: 5000, ..d.clone() });
    add("b32-no-notes-text4097", Spec { is64: false, pt_note: false, section_note: false, text_len: 4097, ..d.clone() });
    add("b64-no-notes-rodata-first", Spec { pt_note: false, section_note: false, rodata_first: true, ..d.clone() });
    add("b32-no-notes-rodata-first-text5000", Spec { is64: false, pt_note: false, section_note: false, rodata_first: true, text_len: 5000, ..d.clone() });
    // section names that merely END in the looked-for names, stored first in .shstrtab (no tail merging)
    add("b64-decoy-names", Spec { decoy_names: true, ..d.clone() });
    add("b64-decoy-names-no-ptnote", Spec { decoy_names: true, pt_note: false, ..d.clone() });
    add("b32be-decoy-names-no-ptnote", Spec { is64: false, be: true, decoy_names: true, pt_note: false, ..d.clone() });
    add("b64-no-soname", Spec { soname: None, ..d.clone() });
    add("b64-no-sections", Spec { sections: false, ..d.clone() });
    add("b64-abi-note-first", Spec { abi_note_first: true, ..d.clone() });
    add("b64-abi-note-first-no-ptnote", Spec { abi_note_first: true, pt_note: false, ..d.clone() });
    add("b64-align8", Spec { note_align: 8, ..d.clone() });
    add("b64-id20", Spec { build_id: (100..120).collect(), ..d.clone() });
    add("b64-id8", Spec { build_id: (1..=8).collect(), ..d.clone() });
    // identifier lengths around the 16-byte GUID and the usual 20-byte SHA-1: 1, 3, 15, 16, 17, 32 (SHA-256), 64
    for n in [1usize, 3, 15, 16, 17, 32, 64] {
        add(&format!("b64-id{n}"), Spec { build_id: (0..n).map(|i| (0x30 + 7 * i) as u8).collect(), ..d.clone() });
    }
    add("b32be-id32", Spec { is64: false, be: true, build_id: (0..32).map(|i| (0xa0 + i) as u8).collect(), ..d.clone() });
    add("b64-id16-no-ptnote", Spec { pt_note: false, build_id: (0..16).map(|i| (0x11 * (i % 15 + 1)) as u8).collect(), ..d.clone() });
    // SONAME shapes: one character, with spaces, non-ASCII, empty
    add("b64-soname-1", Spec { soname: Some("l".into()), ..d.clone() });
    add("b64-soname-space", Spec { soname: Some("lib with space.so.1".into()), ..d.clone() });
    add("b64-soname-nonascii", Spec { soname: Some("lib\u{e9}\u{1f980}.so".into()), ..d.clone() });
    add("b64-soname-empty", Spec { soname: Some(String::new()), ..d.clone() });
    // SONAME lengths around the 64-byte and 128-byte marks and at 255 bytes
    for n in [63usize, 64, 65, 100, 128, 255] {
        let nm: String = (0..n).map(|i| if i % 11 == 10 { '.' } else { (b'a' + (i % 26) as u8) as char }).collect();
        add(&format!("b64-soname-len{n}"), Spec { soname: Some(nm), ..d.clone() });
    }
    add("b64-longsoname", Spec { soname: Some("libwith-a-rather-long-name_and.some-dots.so.12.34.56".into()), ..d.clone() });
    add("b64-nonpie", Spec { vbase: 0x40_0000, ..d.clone() });
    add("b64-split-load", Spec { split_load_delta: 0x3000, ..d.clone() });
    add("b64-split-load-no-sections", Spec { split_load_delta: 0x3000, sections: false, ..d.clone() });
    add("b32-split-load", Spec { is64: false, split_load_delta: 0x2000, ..d.clone() });
    // a second PT_LOAD whose FILE OFFSET is larger than its virtual address (libraries rewritten more than once by patchelf / auditwheel)
    add("b64-split-load-offset-above-vaddr", Spec { split_load_delta: 0x1000, split_load_neg: true, dynstr_pad: 0x2000, ..d.clone() });
    add("b64-split-load-offset-above-vaddr-no-sections", Spec { split_load_delta: 0x2000, split_load_neg: true, dynstr_pad: 0x2000, sections: false, ..d.clone() });
    add("b32be-split-load-offset-above-vaddr", Spec { is64: false, be: true, split_load_delta: 0x1000, split_load_neg: true, dynstr_pad: 0x3000, ..d.clone() });
    v
}

fn check_no_panic(rep: &mut Report, bytes: &[u8], key: &str, what: &str, case: Value) -> Option<Ident> {
    rep.evaluations += 1;
    match subject(bytes) {
        Ok(id) => {
            let mut sig = id.build_id.clone().unwrap_or_default();
            sig.extend_from_slice(id.soname.clone().unwrap_or_default().as_bytes());
            sig.push(id.build_id.is_some() as u8 + 2 * id.soname.is_some() as u8);
            rep.outcome(mdv_core::fnv(&sig));
            Some(id)
        }
        Err(p) => {
            // key the panic by its source location so distinct defects stay distinct
            let loc = p.split("panicked at ").nth(1).and_then(|s| s.split(':').next().map(|f| f.rsplit('/').next().unwrap_or(f).to_string())).unwrap_or_default();
            let line = p.split(':').nth(1).unwrap_or("").to_string();
            let _ = key;
            rep.violation(&format!("panic/{loc}:{line}"), &format!("reader panicked on {what}: {p}"), case);
            None
        }
    }
}

fn mutate_images(rep: &mut Report, thorough: bool) {
    let mut images = base_images();
    // the crate's own fixture, with a field table borrowed from the equivalent builder layout? No:
    // TINY_ELF is mutated byte-wise and by truncation only.
    let tiny = Built { bytes: TINY_ELF.to_vec(), fields: vec![], is64: true, be: false, build_id: Some((1..=16).collect()), soname: Some("libfoo.so.1".into()), text: vec![] };
    images.push(("tiny_elf".into(), tiny));
    let mut nfields = 0;
    for (name, img) in &images {
        // 0 deviations + agreement on the base image
        if let Some(id) = check_no_panic(rep, &img.bytes, "base", &format!("base image {name}"), json!({"image": name, "mut": "none"})) {
            rep.nontrivial += 1;
            if let Some((k, m)) = agree(&img.bytes, &id, &format!("base/{name}")) {
                rep.violation(&k, &format!("base image {name}: {m}"), json!({"image": name, "mut": "none"}));
            }
            // the builder knows what it put in
            if img.build_id.is_some() && id.build_id != img.build_id && name != "b64-abi-note-first-no-ptnote" {
                rep.violation(&format!("base/{name}/build-id-vs-builder"), &format!("base image {name}: build id {:?} != the one built in", id.build_id.map(|b| mdv_core::hex(&b))), json!({"image": name, "mut": "none"}));
            }
            if id.soname != img.soname {
                rep.violation(&format!("base/{name}/soname-vs-builder"), &format!("base image {name}: SONAME {:?} != the one built in {:?}", id.soname, img.soname), json!({"image": name, "mut": "none"}));
            }
        }
        let size = img.bytes.len() as u64;
        let mut values: Vec<u64> = BOUNDARY.to_vec();
        values.extend([size - 1, size, size + 1]);
        // 1 deviation: every field x every boundary value (+ original xor 1)
        nfields += img.fields.len();
        for f in &img.fields {
            let orig = read_field(&img.bytes, f, img.be);
            let mut vals = values.clone();
            vals.push(orig ^ 1);
            for v in vals {
                let mut b = img.bytes.clone();
                write_field(&mut b, f, img.be, v);
                if b == img.bytes {
                    continue;
                }
                rep.nontrivial += 1;
                check_no_panic(rep, &b, &f.name, &format!("{name} with {} = {v:#x}", f.name), json!({"image": name, "mut": "field", "field": f.name, "value": format!("{v:#x}")}));
            }
        }
        // every truncation length
        for n in 0..img.bytes.len() {
            check_no_panic(rep, &img.bytes[..n], "truncated", &format!("{name} truncated to {n} bytes"), json!({"image": name, "mut": "truncate", "len": n}));
        }
        // every byte x {0x00, 0xff}
        for i in 0..img.bytes.len() {
            for v in [0u8, 0xff] {
                if img.bytes[i] == v {
                    continue;
                }
                let mut b = img.bytes.clone();
                b[i] = v;
                check_no_panic(rep, &b, "byte", &format!("{name} with byte {i} = {v:#x}"), json!({"image": name, "mut": "byte", "at": i, "value": v}));
            }
        }
    }
    // 2 deviations (thorough): all pairs of fields x a 6-value sub-alphabet on three images
    if thorough {
        let sub: [u64; 6] = [0, 1, 0xFFFF_FFFF, 1 << 63, u64::MAX - 7, u64::MAX];
        for (name, img) in images.iter().filter(|(n, _)| n == "b64" || n == "b32" || n == "b64-no-notes") {
            for (i, f1) in img.fields.iter().enumerate() {
                for f2 in img.fields.iter().skip(i + 1) {
                    for v1 in sub {
                        for v2 in sub {
                            let mut b = img.bytes.clone();
                            write_field(&mut b, f1, img.be, v1);
                            write_field(&mut b, f2, img.be, v2);
                            check_no_panic(rep, &b, &format!("{}+{}", f1.name, f2.name), &format!("{name} with {}={v1:#x}, {}={v2:#x}", f1.name, f2.name),
                                json!({"image": name, "mut": "fields2", "f1": f1.name, "v1": format!("{v1:#x}"), "f2": f2.name, "v2": format!("{v2:#x}")}));
                        }
                    }
                }
            }
        }
    }
    rep.set("base_images", json!(images.len()));
    rep.set("mutable_fields_total", json!(nfields));
    rep.set("deviation_bound_completed", json!(if thorough { 2 } else { 1 }));
}

fn image_for_case(case: &Value) -> Option<Vec<u8>> {
    let name = case.get("image")?.as_str()?;
    let mut images = base_images();
    images.push(("tiny_elf".into(), Built { bytes: TINY_ELF.to_vec(), fields: vec![], is64: true, be: false, build_id: None, soname: None, text: vec![] }));
    let (_, img) = images.into_iter().find(|(n, _)| n == name)?;
    let hexv = |k: &str| -> Option<u64> { u64::from_str_radix(case.get(k)?.as_str()?.trim_start_matches("0x"), 16).ok() };
    let mut b = img.bytes.clone();
    match case.get("mut")?.as_str()? {
        "none" => {}
        "field" => {
            let f = img.fields.iter().find(|f| Some(f.name.as_str()) == case.get("field").and_then(|x| x.as_str()))?;
            write_field(&mut b, f, img.be, hexv("value")?);
        }
        "fields2" => {
            let f1 = img.fields.iter().find(|f| Some(f.name.as_str()) == case.get("f1").and_then(|x| x.as_str()))?;
            let f2 = img.fields.iter().find(|f| Some(f.name.as_str()) == case.get("f2").and_then(|x| x.as_str()))?;
            write_field(&mut b, f1, img.be, hexv("v1")?);
            write_field(&mut b, f2, img.be, hexv("v2")?);
        }
        "truncate" => b.truncate(case.get("len")?.as_u64()? as usize),
        "byte" => b[case.get("at")?.as_u64()? as usize] = case.get("value")?.as_u64()? as u8,
        _ => return None,
    }
    Some(b)
}

fn walk(dir: &std::path::Path, out: &mut Vec<std::path::PathBuf>, depth: usize) {
    if depth > 12 {
        return;
    }
    let Ok(rd) = std::fs::read_dir(dir) else { return };
    let mut entries: Vec<_> = rd.filter_map(|e| e.ok()).collect();
    entries.sort_by_key(|e| e.file_name());
    for e in entries {
        let Ok(ft) = e.file_type() else { continue };
        let p = e.path();
        if ft.is_dir() {
            walk(&p, out, depth + 1);
        } else if ft.is_file() {
            out.push(p);
        }
    }
}

fn installed_files(rep: &mut Report, thorough: bool) {
    let roots: Vec<&str> = if thorough { vec!["/usr", "/opt", "/lib", "/bin", "/sbin", "/root/.cargo/bin", "/root/.rustup"] } else { vec!["/usr/bin", "/usr/lib/x86_64-linux-gnu"] };
    let mut files = Vec::new();
    for r in roots {
        // do not follow the /lib -> /usr/lib style symlinks twice
        if std::fs::symlink_metadata(r).map(|m| m.file_type().is_symlink()).unwrap_or(true) {
            continue;
        }
        walk(std::path::Path::new(r), &mut files, 0);
    }
    let nthreads = 16;
    let files = &files;
    let mut results: Vec<(u64, u64, u64, Vec<(String, String, Value)>, Option<Value>)> = Vec::new();
    std::thread::scope(|s| {
        let hs: Vec<_> = (0..nthreads)
            .map(|w| {
                s.spawn(move || {
                    let mut elf = 0u64;
                    let mut compared = 0u64;
                    let mut wellformed = 0u64;
                    let mut fails = Vec::new();
                    let mut sample = None;
                    for (i, p) in files.iter().enumerate() {
                        if i % nthreads != w {
                            continue;
                        }
                        let Ok(md) = std::fs::metadata(p) else { continue };
                        if md.len() < 16 || md.len() > 300 << 20 {
                            continue;
                        }
                        {
                            use std::io::Read;
                            let Ok(mut f) = std::fs::File::open(p) else { continue };
                            let mut magic = [0u8; 4];
                            if f.read_exact(&mut magic).is_err() || &magic != b"\x7fELF" {
                                continue;
                            }
                        }
                        let Ok(bytes) = std::fs::read(p) else { continue };
                        elf += 1;
                        let ps = p.to_string_lossy().into_owned();
                        match subject(&bytes) {
                            Err(pmsg) => fails.push((format!("installed/panic/{ps}"), format!("reader panicked on {ps}: {pmsg}"), json!({"file": ps}))),
                            Ok(id) => {
                                compared += 1;
                                if ElfRef::parse(&bytes).map(|r| r.well_formed()).unwrap_or(false) {
                                    wellformed += 1;
                                }
                                if let Some((k, m)) = agree(&bytes, &id, "installed") {
                                    if fails.len() < 40 {
                                        fails.push((format!("{k}:{ps}"), format!("{ps}: {m}"), json!({"file": ps})));
                                    }
                                } else if sample.is_none() && id.soname.is_some() {
                                    sample = Some(json!({"file": ps, "build_id": id.build_id.as_ref().map(|b| mdv_core::hex(b)), "soname": id.soname}));
                                }
                            }
                        }
                    }
                    (elf, compared, wellformed, fails, sample)
                })
            })
            .collect();
        for h in hs {
            results.push(h.join().expect("thread"));
        }
    });
    let (mut elf, mut cmp, mut wf) = (0, 0, 0);
    for (e, c, w, fails, sample) in results {
        elf += e;
        cmp += c;
        wf += w;
        if let Some(s) = sample {
            rep.sample(s);
        }
        for (k, m, c) in fails {
            rep.violation(&k, &m, c);
        }
    }
    rep.evaluations += elf;
    rep.nontrivial += wf;
    rep.set("installed_files", json!({"files_scanned": files.len(), "elf_files": elf, "compared": cmp, "well_formed_per_independent_reader": wf}));
}

pub fn run(ctx: &Ctx, rep: &mut Report) {
    rep.rule = "LAT: 20 base images x every header/program-header/section-header/dynamic/note field x 18 boundary values (1 deviation; thorough: pairs over 6 values on 3 images), every truncation, every byte x {00,ff} -> no panic; base images and every installed ELF file -> build id / SONAME equal to the independent reader's. nontrivial = single-field mutants + independently well-formed installed ELF files".into();
    rep.assume("agreement is only demanded where the independent reader finds the image well-formed and its own two strategies (segments / sections) agree");
    if let Some(case) = &ctx.replay {
        if let Some(f) = case.get("file").and_then(|f| f.as_str()) {
            match std::fs::read(f) {
                Ok(bytes) => match subject(&bytes) {
                    Err(p) => {
                        rep.violation(&format!("installed/panic/{f}"), &p, case.clone());
                    }
                    Ok(id) => {
                        if let Some((k, m)) = agree(&bytes, &id, "installed") {
                            rep.violation(&format!("{k}:{f}"), &m, case.clone());
                        }
                    }
                },
                Err(e) => rep.machinery(format!("{f}: {e}")),
            }
        } else if case.get("image").is_some() {
            match image_for_case(case) {
                Some(b) => {
                    if let Some(id) = check_no_panic(rep, &b, "replay", "replayed image", case.clone()) {
                        if case.get("mut").and_then(|m| m.as_str()) == Some("none") {
                            if let Some((k, m)) = agree(&b, &id, "base/replay") {
                                rep.violation(&k, &m, case.clone());
                            }
                        }
                    }
                }
                None => rep.machinery("cannot rebuild the image of this replay".into()),
            }
        } else {
            crate::checks::c14e::replay(case, rep);
        }
        return;
    }
    mutate_images(rep, ctx.tier.is_thorough());
    installed_files(rep, ctx.tier.is_thorough());
    crate::checks::c14e::run(ctx, rep);
    rep.states = rep.evaluations;
    rep.transitions = rep.evaluations;
    rep.traces = rep.evaluations;
    rep.exhaustive = true;
}
