//! C09 / C10 (component part) — SEQ explorer on the real `DirSection`.
//!
//! State = operation history (grow image / flush / flush with directory entry / emit entry),
//! re-executed on a fresh Buffer + DirSection + recording destination for every initial state
//! (directory length x destination start offset x pre-existing content) and every single injected
//! destination fault. C09 oracle: byte-vector file model. C10 oracle: every prefix of the
//! destination op log is a consistent truncated image (written-bytes bitmap).

use crate::checks::guarded;
use crate::dest::{replay_prefix, DestOp, Fault, RecDest};
use crate::Ctx;
use mdv_core::{fnv, json, Report, Value};
use minidump_writer::dir_section::DirSection;
use minidump_writer::mem_writer::{Buffer, MemoryArrayWriter, MemoryWriter};
use minidump_writer::minidump_format::{MDLocationDescriptor, MDRawDirectory, MDRawHeader};
use std::cell::RefCell;
use std::io::{Seek, SeekFrom, Write};
use std::rc::Rc;

#[derive(Clone)]
pub struct SharedDest(pub Rc<RefCell<RecDest>>);
impl Write for SharedDest {
    fn write(&mut self, b: &[u8]) -> std::io::Result<usize> {
        self.0.borrow_mut().write(b)
    }
    fn flush(&mut self) -> std::io::Result<()> {
        self.0.borrow_mut().flush()
    }
}
impl Seek for SharedDest {
    fn seek(&mut self, s: SeekFrom) -> std::io::Result<u64> {
        self.0.borrow_mut().seek(s)
    }
}

#[derive(Clone, Copy, Debug, PartialEq, Eq)]
pub enum Op {
    Grow(u8),
    Flush,
    FlushEntry,
    Entry,
}

impl Op {
    fn name(self) -> String {
        match self {
            Op::Grow(n) => format!("grow{n}"),
            Op::Flush => "flush".into(),
            Op::FlushEntry => "flush+entry".into(),
            Op::Entry => "entry".into(),
        }
    }
    fn parse(s: &str) -> Option<Op> {
        Some(match s {
            "flush" => Op::Flush,
            "flush+entry" => Op::FlushEntry,
            "entry" => Op::Entry,
            g if g.starts_with("grow") => Op::Grow(g[4..].parse().ok()?),
            _ => return None,
        })
    }
}

#[derive(Clone, Copy, Debug)]
pub struct Init {
    pub nslots: u8,
    pub start: u64,
    pub pre: u8, // 0 = empty destination, 1 = exactly `start` bytes, 2 = start+100 bytes
    pub fault: Fault,
    /// absolute file offset of the window the destination presents (0 = ordinary; > 4 GiB: a dump
    /// appended to a huge file). `start` and `pre` are relative to it.
    pub base: u64,
}

impl Init {
    fn pre_bytes(&self) -> Vec<u8> {
        match self.pre {
            0 => vec![],
            1 => (0..self.start).map(|i| 0xE0 | (i as u8 & 0xf)).collect(),
            _ => (0..self.start + 100).map(|i| 0xE0 | (i as u8 & 0xf)).collect(),
        }
    }
    fn to_json(&self) -> Value {
        let f = match self.fault {
            Fault::None => json!("none"),
            Fault::ErrAt(k) => json!({"err_at_call": k}),
            Fault::PanicAt(k) => json!({"panic_at_call": k}),
            Fault::ShortWrites(n) => json!({"short_writes": n}),
        };
        json!({"nslots": self.nslots, "start": self.start, "pre": self.pre, "fault": f, "base": self.base})
    }
    fn from_json(v: &Value) -> Option<Init> {
        let f = v.get("fault")?;
        let fault = if f.as_str() == Some("none") {
            Fault::None
        } else if let Some(k) = f.get("err_at_call") {
            Fault::ErrAt(k.as_u64()? as usize)
        } else if let Some(k) = f.get("panic_at_call") {
            Fault::PanicAt(k.as_u64()? as usize)
        } else {
            Fault::ShortWrites(f.get("short_writes")?.as_u64()? as usize)
        };
        Some(Init { nslots: v.get("nslots")?.as_u64()? as u8, start: v.get("start")?.as_u64()?, pre: v.get("pre")?.as_u64()? as u8, fault, base: v.get("base").and_then(|b| b.as_u64()).unwrap_or(0) })
    }
}

pub struct Outcome {
    pub log: Vec<DestOp>,
    pub calls: usize,
    pub final_file: Vec<u8>,
    pub final_image: Vec<u8>,
    pub canon: u64,
    pub failed: bool,
    pub entries_emitted: usize,
    /// (slot index, rva, size) of emitted entries
    pub entries: Vec<(usize, u32, u32)>,
    pub dir_rva: usize,
}

fn grow_bytes(n: u8, counter: usize) -> Vec<u8> {
    (0..n as usize).map(|j| (0x11 + counter * 37 + j * 3) as u8 | 1).collect()
}

/// File-model invariant (C09). `flushed` = image length at the last successful flush.
fn file_model_check(file: &[u8], pre: &[u8], start: usize, image: &[u8], image_before: &[u8], model: &[u8], after_failure: bool) -> Option<(String, String)> {
    // bytes before the start position are untouched (never-existing bytes read as zero gap fill)
    for i in 0..start.min(file.len()) {
        let want = pre.get(i).copied().unwrap_or(0);
        if file[i] != want {
            return Some(("before-start-modified".into(), format!("byte {i} before the start offset {start} is {:#x}, was {want:#x}", file[i])));
        }
    }
    // the flushed part of the image is in the file
    let flushed = model.len();
    for i in 0..flushed {
        match file.get(start + i) {
            Some(b) if *b == model[i] => {}
            // a call that failed half-way may already have stored some bytes of the image it was flushing
            Some(b) if after_failure && (*b == image[i] || image_before.get(i) == Some(b)) => {}
            other => {
                let k = if after_failure { "flushed-image-differs-after-failure" } else { "flushed-image-differs" };
                return Some((k.into(), format!("destination byte at start+{i} is {other:x?} but the image flushed so far has {:#x} there (flushed {flushed} of {} bytes)", model[i], image.len())));
            }
        }
    }
    // beyond the flushed part: unmodified, or an early copy of the image's own byte; never beyond the image end
    for i in (start + flushed)..file.len() {
        let rel = i - start;
        let orig = pre.get(i).copied();
        if rel >= image.len() {
            match orig {
                Some(o) if o == file[i] => {}
                _ => return Some(("beyond-image-end-modified".into(), format!("destination byte {i} lies beyond the end of the image (start {start} + {} bytes) but is {:#x} (was {orig:x?})", image.len(), file[i]))),
            }
        } else {
            let ok = Some(file[i]) == orig
                || file[i] == image[rel]
                || (after_failure && image_before.get(rel) == Some(&file[i]))
                || (orig.is_none() && file[i] == 0);
            if !ok {
                return Some(("unflushed-region-garbage".into(), format!("destination byte at start+{rel} is {:#x}: neither the previous content ({orig:x?}) nor the image byte {:#x}", file[i], image[rel])));
            }
        }
    }
    None
}

/// Run one history. Returns the outcome, or Err((key, msg)) for a C09 violation.
pub fn run_history(init: &Init, h: &[Op], check_c09: bool) -> Result<Outcome, (String, String)> {
    let pre = init.pre_bytes();
    let start = init.start as usize;
    let dest = Rc::new(RefCell::new(RecDest::new(pre.clone(), init.start, init.fault)));
    dest.borrow_mut().base = init.base;
    let mut shared = SharedDest(dest.clone());
    let mut buffer = Buffer::with_capacity(0);
    let hdr_bytes: Vec<u8> = (0..32).map(|i| 0xA0 + i as u8).collect();
    let _ = MemoryArrayWriter::<u8>::write_bytes(&mut buffer, &hdr_bytes);
    let _ = MemoryWriter::<MDRawHeader>::alloc; // (the real writer allocates a header the same way: 32 bytes first)
    let mut ds = match DirSection::new(&mut buffer, init.nslots as u32, &mut shared) {
        Ok(d) => d,
        Err(_) => {
            // construction failed (injected fault on stream_position): nothing may have been written
            let d = dest.borrow();
            if check_c09 && d.data != pre {
                return Err(("constructor-failure-wrote".into(), "DirSection::new failed but the destination changed".into()));
            }
            return Ok(Outcome { log: d.log.clone(), calls: d.calls, final_file: d.data.clone(), final_image: buffer.to_vec(), canon: 0, failed: true, entries_emitted: 0, entries: vec![], dir_rva: 32 });
        }
    };
    let dir_rva = ds.position() as usize;
    let mut flushed = 0usize;
    let mut model: Vec<u8> = Vec::new(); // the image as of the last successful flush, with successfully emitted entries
    let mut emitted = 0usize;
    let mut growth_start = buffer.len();
    let mut entries = Vec::new();
    let mut failed = false;
    for (i, op) in h.iter().enumerate() {
        let image_before = buffer.to_vec();
        let res = match *op {
            Op::Grow(n) => {
                let _ = MemoryArrayWriter::<u8>::write_bytes(&mut buffer, &grow_bytes(n, i));
                Ok(())
            }
            Op::Flush => ds.write_to_file(&mut buffer, None).map(|_| {
                flushed = buffer.len();
                model = buffer.to_vec();
            }),
            Op::FlushEntry | Op::Entry => {
                if emitted > init.nslots as usize {
                    return Err(("harness".into(), "history emits more than one entry beyond the slots".into()));
                }
                // a bare entry (no flush) may only name bytes that were flushed already; flush+entry
                // names everything grown since the previous entry
                let region_end = if *op == Op::Entry { flushed.max(growth_start).min(buffer.len()) } else { buffer.len() };
                let dirent = MDRawDirectory {
                    stream_type: 0x1000 + emitted as u32,
                    location: MDLocationDescriptor { rva: growth_start as u32, data_size: (region_end - growth_start) as u32 },
                };
                let r = if *op == Op::FlushEntry {
                    ds.write_to_file(&mut buffer, Some(dirent)).map(|_| {
                        flushed = buffer.len();
                        model = buffer.to_vec();
                    })
                } else {
                    ds.dump_dir_entry(&mut buffer, dirent).map(|_| {
                        let o = dir_rva + 12 * emitted;
                        if o + 12 <= model.len() {
                            model[o..o + 12].copy_from_slice(&buffer[o..o + 12]);
                        }
                    })
                };
                if r.is_ok() {
                    entries.push((emitted, growth_start as u32, (region_end - growth_start) as u32));
                    emitted += 1;
                    growth_start = region_end;
                }
                r
            }
        };
        failed = res.is_err();
        if check_c09 {
            let d = dest.borrow();
            if let Some((at, n)) = d.stray.first() {
                return Err(("wrote-outside-the-dump".into(), format!("after op #{i} {}: {n} bytes were written at absolute offset {at:#x}, outside the dump's range (the destination was positioned at {:#x} when the dump started)", op.name(), init.base + init.start)));
            }
            if let Some((k, m)) = file_model_check(&d.data, &pre, start, &buffer, &image_before, &model, failed) {
                return Err((k, format!("after op #{i} {} ({}): {m}", op.name(), if failed { "failed" } else { "ok" })));
            }
        }
        if failed {
            break;
        }
    }
    drop(ds);
    let d = dest.borrow();
    let image = buffer.to_vec();
    let mut key = Vec::new();
    key.extend_from_slice(&fnv(&image).to_le_bytes());
    key.extend_from_slice(&fnv(&d.data).to_le_bytes());
    key.extend_from_slice(&d.pos.to_le_bytes());
    key.push(emitted as u8);
    key.extend_from_slice(&(flushed as u32).to_le_bytes());
    Ok(Outcome { log: d.log.clone(), calls: d.calls, final_file: d.data.clone(), final_image: image, canon: fnv(&key), failed, entries_emitted: emitted, entries, dir_rva })
}

/// C10 oracle for one recorded run: every prefix of the op log (from the first completed write
/// on) must be a consistent truncated image.
pub fn prefix_check(init: &Init, out: &Outcome, windows: &mut u64) -> Option<(String, String)> {
    prefix_check_ext(init, out, windows, false)
}

/// `short_writes`: the destination accepted some writes only in part, so a crash point can fall inside the
/// flush that carries the header and the directory (not something the writer can help): such prefixes are
/// skipped, the entry law is judged on all others.
pub fn prefix_check_ext(init: &Init, out: &Outcome, windows: &mut u64, short_writes: bool) -> Option<(String, String)> {
    let pre = init.pre_bytes();
    let start = init.start as usize;
    let n_ops = out.log.len();
    let dir_len = 12 * init.nslots as usize;
    for n in 1..=n_ops {
        if !out.log[..n].iter().any(|o| matches!(o, DestOp::Write { .. })) {
            continue;
        }
        // only look at boundaries after a completed write/seek (every op is one)
        let (data, written) = replay_prefix(&pre, &out.log, n);
        let is_written = |a: usize, len: usize| -> bool { a + len <= written.len() && written[a..a + len].iter().all(|w| *w) };
        if short_writes && (!is_written(start, 32) || !is_written(start + out.dir_rva, dir_len)) {
            continue;
        }
        if !is_written(start, 32) {
            return Some(("header-missing".into(), format!("after {n} destination ops the header is not completely present")));
        }
        if !is_written(start + out.dir_rva, dir_len) {
            return Some(("directory-missing".into(), format!("after {n} destination ops the directory is not completely present")));
        }
        for slot in 0..init.nslots as usize {
            let o = start + out.dir_rva + 12 * slot;
            let ty = u32::from_le_bytes(data[o..o + 4].try_into().unwrap());
            let size = u32::from_le_bytes(data[o + 4..o + 8].try_into().unwrap()) as usize;
            let rva = u32::from_le_bytes(data[o + 8..o + 12].try_into().unwrap()) as usize;
            if ty == 0 && size == 0 && rva == 0 {
                continue;
            }
            if ty == 0 {
                return Some(("torn-entry".into(), format!("after {n} destination ops slot {slot} is half-written (type 0, size {size}, rva {rva})")));
            }
            if !is_written(start + rva, size) {
                // is this the window between the entry write and its data?
                *windows += 1;
                return Some((
                    "entry-before-data".into(),
                    format!("after {n} destination ops directory slot {slot} names bytes [{rva}, +{size}) of which not all have reached the destination (crash window between the entry and its data)"),
                ));
            }
            if data[start + rva..start + rva + size] != out.final_image[rva..rva + size] {
                return Some(("stream-bytes-differ".into(), format!("after {n} destination ops the bytes slot {slot} names differ from the image")));
            }
        }
    }
    None
}

pub const ALPHABET: [Op; 7] = [Op::Flush, Op::Grow(1), Op::FlushEntry, Op::Grow(5), Op::Entry, Op::Grow(0), Op::Grow(40)];

pub fn inits() -> Vec<Init> {
    let mut v = Vec::new();
    for nslots in [1u8, 2, 0, 3] {
        for start in [0u64, 1, 13] {
            for pre in [1u8, 0, 2] {
                if start == 0 && pre == 1 {
                    continue; // same as empty
                }
                v.push(Init { nslots, start, pre, fault: Fault::None, base: 0 });
                // the same destination presented at absolute offsets just below / beyond 4 GiB and 2^40
                // (a dump appended to a huge file): offsets must be handled in 64 bits
                if nslots <= 2 && pre != 0 {
                    for base in [0xffff_ffe0u64, 0x1_0000_3000, 1 << 40] {
                        v.push(Init { nslots, start, pre, fault: Fault::None, base });
                    }
                }
            }
        }
    }
    v
}

/// `surplus`: how many entries beyond the directory's slots a history may emit (the writer does not check;
/// C09 only asks that image and destination stay equal then).
pub fn histories(depth: usize, nslots: u8, must_start_with_flush: bool, surplus: u8) -> Vec<Vec<Op>> {
    let mut out = Vec::new();
    fn rec(cur: &mut Vec<Op>, entries: u8, depth: usize, nslots: u8, real_slots: u8, out: &mut Vec<Vec<Op>>) {
        // (nslots already includes the permitted surplus here)
        if !cur.is_empty() {
            out.push(cur.clone());
        }
        if cur.len() == depth {
            return;
        }
        for op in ALPHABET {
            let e = matches!(op, Op::FlushEntry | Op::Entry) as u8;
            if entries + e > nslots {
                continue;
            }
            // a surplus entry only together with a flush (after it the whole image is the reference; what a
            // bare surplus entry does to bytes that were flushed before is outside what the statement fixes)
            if matches!(op, Op::Entry) && entries + e > real_slots {
                continue;
            }
            cur.push(op);
            rec(cur, entries + e, depth, nslots, real_slots, out);
            cur.pop();
        }
    }
    let real_slots = nslots;
    let nslots = nslots + surplus;
    let mut cur = Vec::new();
    if must_start_with_flush {
        cur.push(Op::Flush);
        rec(&mut cur, 0, depth, nslots, real_slots, &mut out);
    } else {
        rec(&mut cur, 0, depth, nslots, real_slots, &mut out);
    }
    out
}

pub fn case_json(init: &Init, h: &[Op]) -> Value {
    json!({"init": init.to_json(), "history": h.iter().map(|o| o.name()).collect::<Vec<_>>()})
}

pub fn parse_case(case: &Value) -> Option<(Init, Vec<Op>)> {
    let init = Init::from_json(case.get("init")?)?;
    let h = case.get("history")?.as_array()?.iter().map(|s| Op::parse(s.as_str()?)).collect::<Option<Vec<_>>>()?;
    Some((init, h))
}

struct Acc {
    states: u64,
    transitions: u64,
    faulted_runs: u64,
    short_write_runs: u64,
    fails: Vec<(String, String, Value)>,
    canons: std::collections::HashSet<u64>,
    nontrivial: u64,
    sample: Option<Value>,
}

fn explore_c09(depth: usize, fault_depth: usize) -> Acc {
    let all_inits = inits();
    let nthreads = 16;
    let mut accs = Vec::new();
    let hist_by_slots: Vec<Vec<Vec<Op>>> = (0..4u8).map(|n| histories(depth, n, false, 1)).collect();
    std::thread::scope(|s| {
        let all_inits = &all_inits;
        let hist_by_slots = &hist_by_slots;
        let hs: Vec<_> = (0..nthreads)
            .map(|w| {
                s.spawn(move || {
                    let mut acc = Acc { states: 0, transitions: 0, faulted_runs: 0, short_write_runs: 0, fails: vec![], canons: Default::default(), nontrivial: 0, sample: None };
                    let mut push_fail = |acc: &mut Acc, k: String, m: String, c: Value| {
                        if acc.fails.len() < 30 && !acc.fails.iter().any(|f| f.0 == k) {
                            acc.fails.push((k, m, c));
                        }
                    };
                    for (ii, init) in all_inits.iter().enumerate() {
                        let hists = &hist_by_slots[init.nslots as usize];
                        for (hi, h) in hists.iter().enumerate() {
                            if (ii * 7919 + hi) % nthreads != w {
                                continue;
                            }
                            acc.states += 1;
                            acc.transitions += 1;
                            let r = guarded(|| run_history(init, h, true));
                            let calls = match r {
                                Err(p) => {
                                    push_fail(&mut acc, "panic".into(), format!("panic: {p}"), case_json(init, h));
                                    continue;
                                }
                                Ok(Err((k, m))) => {
                                    push_fail(&mut acc, format!("seq/{k}"), m, case_json(init, h));
                                    continue;
                                }
                                Ok(Ok(o)) => {
                                    acc.canons.insert(o.canon);
                                    if o.entries_emitted > 0 && init.start > 0 {
                                        acc.nontrivial += 1;
                                        if acc.sample.is_none() && h.len() >= 4 {
                                            acc.sample = Some(case_json(init, h));
                                        }
                                    }
                                    o.calls
                                }
                            };
                            if h.len() <= fault_depth {
                                // one injected Err at every destination call, and short writes
                                for k in 0..calls {
                                    let fi = Init { fault: Fault::ErrAt(k), ..*init };
                                    acc.faulted_runs += 1;
                                    acc.transitions += 1;
                                    match guarded(|| run_history(&fi, h, true)) {
                                        Err(p) => push_fail(&mut acc, "panic-under-fault".into(), format!("panic: {p}"), case_json(&fi, h)),
                                        Ok(Err((k2, m))) => push_fail(&mut acc, format!("fault/{k2}"), m, case_json(&fi, h)),
                                        Ok(Ok(o)) => {
                                            acc.canons.insert(o.canon);
                                        }
                                    }
                                }
                                for sw in [1usize, 7] {
                                    let fi = Init { fault: Fault::ShortWrites(sw), ..*init };
                                    acc.short_write_runs += 1;
                                    acc.transitions += 1;
                                    match guarded(|| run_history(&fi, h, true)) {
                                        Err(p) => push_fail(&mut acc, "panic-short-writes".into(), format!("panic: {p}"), case_json(&fi, h)),
                                        Ok(Err((k2, m))) => push_fail(&mut acc, format!("short/{k2}"), m, case_json(&fi, h)),
                                        Ok(Ok(o)) => {
                                            acc.canons.insert(o.canon);
                                        }
                                    }
                                }
                            }
                        }
                    }
                    acc
                })
            })
            .collect();
        for h in hs {
            accs.push(h.join().expect("thread"));
        }
    });
    let mut total = Acc { states: 0, transitions: 0, faulted_runs: 0, short_write_runs: 0, fails: vec![], canons: Default::default(), nontrivial: 0, sample: None };
    for a in accs {
        total.states += a.states;
        total.transitions += a.transitions;
        total.faulted_runs += a.faulted_runs;
        total.short_write_runs += a.short_write_runs;
        total.nontrivial += a.nontrivial;
        total.canons.extend(a.canons);
        total.fails.extend(a.fails);
        if total.sample.is_none() {
            total.sample = a.sample;
        }
    }
    total
}

pub fn run_c09_component(ctx: &Ctx, rep: &mut Report) {
    let (depth, fault_depth) = if ctx.tier.is_thorough() { (7, 5) } else { (6, 4) };
    let a = explore_c09(depth, fault_depth);
    rep.states += a.states;
    rep.transitions += a.transitions;
    rep.traces += a.transitions;
    rep.evaluations += a.transitions;
    rep.nontrivial += a.nontrivial;
    for c in &a.canons {
        rep.outcome(*c);
    }
    rep.set("dirsection_histories", json!({"depth": depth, "fault_depth": fault_depth, "initial_states": inits().len(), "histories_x_inits": a.states, "runs_with_injected_error": a.faulted_runs, "runs_with_short_writes": a.short_write_runs, "distinct_canonical_states": a.canons.len()}));
    if let Some(s) = a.sample {
        rep.sample(s);
    }
    for (k, m, c) in a.fails {
        rep.violation(&k, &m, c);
    }
}

pub fn replay_component(case: &Value, rep: &mut Report, c10: bool) {
    let Some((init, h)) = parse_case(case) else {
        rep.machinery("bad DirSection replay case".into());
        return;
    };
    rep.evaluations += 1;
    match guarded(|| run_history(&init, &h, !c10)) {
        Err(p) => {
            rep.violation("panic", &format!("panic: {p}"), case.clone());
        }
        Ok(Err((k, m))) => {
            rep.violation(&format!("seq/{k}"), &m, case.clone());
        }
        Ok(Ok(o)) => {
            if c10 {
                let mut w = 0;
                if let Some((k, m)) = prefix_check_ext(&init, &o, &mut w, matches!(init.fault, Fault::ShortWrites(_))) {
                    rep.violation(&format!("seq/{k}"), &m, case.clone());
                }
            }
        }
    }
}

pub fn run_c10_component(ctx: &Ctx, rep: &mut Report) {
    let depth = if ctx.tier.is_thorough() { 6 } else { 5 };
    let all_inits = inits();
    let mut crash_points = 0u64;
    let mut windows = 0u64;
    let mut hist_count = 0u64;
    let mut short_runs = 0u64;
    let mut fails: Vec<(String, String, Value)> = Vec::new();
    for init in &all_inits {
        for h in histories(depth, init.nslots, true, 0) {
            hist_count += 1;
            match guarded(|| run_history(init, &h, false)) {
                Err(p) => fails.push(("panic".into(), p, case_json(init, &h))),
                Ok(Err((k, m))) => fails.push((k, m, case_json(init, &h))),
                Ok(Ok(o)) => {
                    crash_points += o.log.len() as u64;
                    if o.entries_emitted > 0 {
                        rep.nontrivial += 1;
                    }
                    rep.outcome(o.canon);
                    if let Some((k, m)) = prefix_check(init, &o, &mut windows) {
                        if !fails.iter().any(|f| f.0 == format!("seq/{k}")) {
                            fails.push((format!("seq/{k}"), format!("history {:?}: {m}", h.iter().map(|o| o.name()).collect::<Vec<_>>()), case_json(init, &h)));
                        }
                    }
                    if rep.samples.is_empty() && h.len() >= 4 && o.entries_emitted >= 1 {
                        rep.sample(case_json(init, &h));
                    }
                }
            }
            // the same history into a destination that accepts at most 13 / 33 bytes per write (a directory
            // entry, 12 bytes, still goes out in one piece; a flush of 40 pending bytes does not)
            if h.len() <= depth - 1 && init.base == 0 {
                for sw in [13usize, 33] {
                    let fi = Init { fault: Fault::ShortWrites(sw), ..*init };
                    short_runs += 1;
                    match guarded(|| run_history(&fi, &h, false)) {
                        Err(p) => fails.push(("panic-short-writes".into(), p, case_json(&fi, &h))),
                        Ok(Err((k, m))) => fails.push((format!("short-writes/{k}"), m, case_json(&fi, &h))),
                        Ok(Ok(o)) => {
                            crash_points += o.log.len() as u64;
                            if let Some((k, m)) = prefix_check_ext(&fi, &o, &mut windows, true) {
                                if !fails.iter().any(|f| f.0 == format!("seq-short-writes/{k}")) {
                                    fails.push((format!("seq-short-writes/{k}"), format!("history {:?}, destination accepting at most {sw} bytes per write: {m}", h.iter().map(|o| o.name()).collect::<Vec<_>>()), case_json(&fi, &h)));
                                }
                            }
                        }
                    }
                }
            }
        }
    }
    rep.states += hist_count;
    rep.transitions += crash_points;
    rep.traces += hist_count;
    rep.evaluations += crash_points;
    rep.set("dirsection_histories", json!({"depth_after_initial_flush": depth, "histories_x_inits": hist_count, "crash_points": crash_points, "entry_before_data_windows_seen": windows, "runs_with_short_writes": short_runs}));
    for (k, m, c) in fails.into_iter().take(10) {
        rep.violation(&k, &m, c);
    }
}

pub fn run(ctx: &Ctx, rep: &mut Report) {
    rep.rule = "SEQ: every history of <=depth DirSection operations (grow 0/1/5/40, flush, flush+entry, entry) x 30 initial states (slots 0..3 x start offset 0/1/13 x pre-content none/exact/longer), plus one injected destination error at every call and short writes for histories <= fault depth; end-to-end: whole dumps into positioned destinations. nontrivial = runs that emit at least one directory entry into a destination with a non-zero start offset".into();
    if let Some(case) = &ctx.replay {
        if case.get("history").is_some() {
            replay_component(case, rep, false);
        } else {
            crate::checks::c09e::replay(case, rep);
        }
        return;
    }
    run_c09_component(ctx, rep);
    crate::checks::c09e::run(ctx, rep);
    rep.exhaustive = true;
}
