//! C20 — unreferenced-stack filtering keeps exactly the relevant stacks.
//!
//! Part 1 (in-process, LAT): `MappingInfo::stack_has_pointer_to_mapping` over copy length x
//! stack-pointer offset x pointer byte offset (aligned and unaligned) x pointer value around the
//! mapping bounds x decoys below SP. Oracle: the iff-rule of the statement.
//! Part 2 (end-to-end on the puppet) lives in c20e.rs once the puppet exists.

use crate::checks::guarded;
use crate::idle::{mapping, perms};
use crate::Ctx;
use mdv_core::{json, Report, Value};

const LOW: u64 = 0x7f12_3400_0000;
const SIZE: u64 = 0x3000;

fn expected(copy: &[u8], sp_off: usize) -> bool {
    let mut o = (sp_off + 7) & !7;
    while o + 8 <= copy.len() {
        let w = u64::from_ne_bytes(copy[o..o + 8].try_into().unwrap());
        if w >= LOW && w < LOW + SIZE {
            return true;
        }
        o += 8;
    }
    false
}

fn one(rep: &mut Report, copy: &[u8], sp_off: usize, what: &str) {
    let m = mapping(LOW as usize, SIZE as usize, perms(true, false, true), Some("/lib/principal.so"));
    rep.evaluations += 1;
    let want = expected(copy, sp_off);
    if want {
        rep.count("expected_referenced");
    } else {
        rep.count("expected_unreferenced");
    }
    let case = json!({"copy": mdv_core::hex(copy), "sp_off": sp_off});
    match guarded(|| m.stack_has_pointer_to_mapping(copy, sp_off)) {
        Err(p) => {
            let k = if copy.len() < 8 { "pure/panic/copy-shorter-than-a-word" } else { "pure/panic/other" };
            rep.violation(k, &format!("stack_has_pointer_to_mapping panicked on a {}-byte copy, sp offset {sp_off} ({what}): {p}", copy.len()), case);
        }
        Ok(got) => {
            rep.outcome(((got as u64) << 1) | want as u64);
            if got && !want {
                // is the only in-range-looking word exactly the end address?
                let mut only_high = false;
                let mut o = (sp_off + 7) & !7;
                while o + 8 <= copy.len() {
                    let w = u64::from_ne_bytes(copy[o..o + 8].try_into().unwrap());
                    if w == LOW + SIZE {
                        only_high = true;
                    }
                    o += 8;
                }
                let k = if only_high { "pure/false-positive/word-equals-mapping-end" } else { "pure/false-positive/other" };
                rep.violation(k, &format!("reported a pointer into the mapping but no aligned word at/above SP lies in [low, high) ({what})"), case);
            } else if !got && want {
                rep.violation("pure/false-negative", &format!("missed a pointer into the mapping ({what})"), case);
            }
        }
    }
}

pub fn run_pure(ctx: &Ctx, rep: &mut Report) {
    let values = [LOW - 1, LOW, LOW + SIZE / 2, LOW + SIZE - 1, LOW + SIZE, LOW + SIZE + 1];
    let max_len = if ctx.tier.is_thorough() { 48 } else { 40 };
    for len in 0..=max_len {
        for sp_off in 0..=24usize {
            // no pointer at all
            one(rep, &vec![0u8; len], sp_off, "no pointer");
            // decoys below SP only
            {
                let mut c = vec![0u8; len];
                let top = ((sp_off + 7) & !7).min(len);
                let mut o = 0;
                while o + 8 <= top {
                    c[o..o + 8].copy_from_slice(&(LOW + 8).to_ne_bytes());
                    o += 8;
                }
                // a pointer that starts below SP rounded up but is not a word at/after SP
                one(rep, &c, sp_off, "valid pointers only below the stack pointer");
            }
            for ptr_off in 0..=32usize {
                if ptr_off + 8 > len {
                    continue;
                }
                for v in values {
                    let mut c = vec![0u8; len];
                    c[ptr_off..ptr_off + 8].copy_from_slice(&v.to_ne_bytes());
                    if ptr_off % 8 == 0 && ptr_off >= ((sp_off + 7) & !7) && v >= LOW && v < LOW + SIZE {
                        rep.nontrivial += 1;
                    }
                    one(rep, &c, sp_off, "one pointer");
                }
            }
        }
    }
    rep.sample(json!({"copy_len": 24, "sp_off": 9, "pointer_at": 16, "value": format!("{:#x}", LOW), "expected": true}));
}

pub fn replay_pure(case: &Value, rep: &mut Report) {
    let copy = mdv_core::unhex(case.get("copy").and_then(|v| v.as_str()).unwrap_or(""));
    let sp_off = case.get("sp_off").and_then(|v| v.as_u64()).unwrap_or(0) as usize;
    one(rep, &copy, sp_off, "replay");
}

pub fn run(ctx: &Ctx, rep: &mut Report) {
    rep.rule = "LAT: copy length 0..40(48) x sp offset 0..24 x pointer byte offset 0..32 x value in {low-1, low, mid, high-1, high, high+1}, plus no-pointer and decoys-below-SP cases, on MappingInfo::stack_has_pointer_to_mapping; nontrivial = cases with an aligned in-range pointer at/above SP".into();
    if let Some(case) = &ctx.replay {
        if case.get("copy").is_some() {
            replay_pure(case, rep);
        } else {
            crate::checks::c20e::replay(case, rep);
        }
        return;
    }
    run_pure(ctx, rep);
    crate::checks::c20e::run(ctx, rep);
    rep.states = rep.evaluations;
    rep.transitions = rep.evaluations;
    rep.traces = rep.evaluations;
    rep.exhaustive = true;
}
