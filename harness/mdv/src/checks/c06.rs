//! C06 — captured stacks contain the live stack.
//!
//! Part 1 (in-process LAT): `PtraceDumper::get_stack_info` on a real dumper with synthetic
//! mappings: every in-page stack-pointer offset x stack sizes x page position x guard distances x
//! neighbour permissions.
//! Part 2 (end-to-end): spin threads whose rsp the checker sets to every in-page offset, thread
//! counts around the 20-thread base, size limits around the estimate threshold, crash context on a
//! thread at position >= 20, sanitize on/off.

use crate::checks::guarded;
use crate::dump::{dump_mem, CrashSpec, DumpOpts, DumpResult, DIM_RIP, DIM_RSP};
use crate::idle::{mapping, perms, IdleTarget};
use crate::puppet::{Kind, Puppet, RSP};
use crate::shapes::par_map;
use crate::Ctx;
use mdv_core::mapsref::parse_maps;
use mdv_core::mdparse::Dump;
use mdv_core::{json, Report, Value};

const PAGE: u64 = 4096;
const BASE: u64 = 0x7ffd_4000_0000;

// ------------------------------------------------------------------------------------ part 1

#[derive(Clone, Debug)]
struct PureCase {
    stack_pages: u64,
    sp: u64,
    below: u8, // what lies below the stack mapping: 0 nothing, 1 one ---p guard page, 2 a 300-page ---p guard, 3 a readable r-- mapping
    note: &'static str,
}

fn pure_layout(c: &PureCase) -> Vec<minidump_writer::maps_reader::MappingInfo> {
    let mut v = Vec::new();
    match c.below {
        1 => v.push(mapping((BASE - PAGE) as usize, PAGE as usize, perms(false, false, false), None)),
        2 => v.push(mapping((BASE - 300 * PAGE) as usize, (300 * PAGE) as usize, perms(false, false, false), None)),
        3 => v.push(mapping((BASE - 2 * PAGE) as usize, (2 * PAGE) as usize, perms(true, false, false), Some("/lib/ro.so"))),
        _ => {}
    }
    v.push(mapping(BASE as usize, (c.stack_pages * PAGE) as usize, perms(true, true, false), Some("[stack]")));
    // something far above, never a candidate
    v.push(mapping((BASE + 0x1000_0000) as usize, PAGE as usize, perms(true, false, true), Some("/lib/x.so")));
    v
}

fn pure_oracle(c: &PureCase, r: &Result<(usize, usize), String>) -> Option<(String, String)> {
    let s_lo = BASE;
    let s_hi = BASE + c.stack_pages * PAGE;
    let in_stack = c.sp >= s_lo && c.sp < s_hi;
    let in_ro = c.below == 3 && c.sp >= BASE - 2 * PAGE && c.sp < BASE;
    match r {
        Err(p) if p.starts_with("panic") => Some(("pure/panic".into(), format!("get_stack_info({:#x}) panicked: {p}", c.sp))),
        Ok((start, len)) => {
            let (start, len) = (*start as u64, *len as u64);
            if in_stack {
                if start != c.sp & !(PAGE - 1) {
                    return Some(("pure/not-page-of-sp".into(), format!("sp {:#x}: region starts at {start:#x}, not on the page of the stack pointer", c.sp)));
                }
                if !(start <= c.sp && c.sp < start + len) {
                    return Some(("pure/sp-not-contained".into(), format!("sp {:#x} not inside [{start:#x}, +{len:#x})", c.sp)));
                }
                if start + len != s_hi {
                    return Some(("pure/not-to-mapping-end".into(), format!("sp {:#x}: region ends at {:#x}, mapping ends at {s_hi:#x}", c.sp, start + len)));
                }
            } else if in_ro {
                // readable non-stack mapping below the stack: "readable memory" -> same rules w.r.t. that mapping
                if !(start <= c.sp && c.sp < start + len) || start + len != BASE {
                    return Some(("pure/readable-neighbour".into(), format!("sp {:#x} in a readable mapping: region [{start:#x}, +{len:#x})", c.sp)));
                }
            } else {
                // guard page / unmapped: must be the first plausible mapping above, within the guard distance
                let first_above = if c.below == 3 && c.sp < BASE - 2 * PAGE { (BASE - 2 * PAGE, 2 * PAGE) } else { (s_lo, s_hi - s_lo) };
                if c.sp >= s_hi {
                    return Some(("pure/region-for-sp-above-everything".into(), format!("sp {:#x} above the stack but a region [{start:#x}, +{len:#x}) was returned", c.sp)));
                }
                let dist_pages = (first_above.0 - (c.sp & !(PAGE - 1))) / PAGE;
                if start != first_above.0 || len != first_above.1 {
                    return Some(("pure/not-first-plausible-mapping".into(), format!("sp {:#x}: region [{start:#x}, +{len:#x}) is not the first readable/writable mapping above ([{:#x}, +{:#x}))", c.sp, first_above.0, first_above.1)));
                }
                if dist_pages > 257 {
                    return Some(("pure/beyond-guard-distance".into(), format!("sp {:#x} is {dist_pages} pages below the mapping that was returned (guard distance is 1 MiB)", c.sp)));
                }
            }
            None
        }
        Err(_) => {
            if in_stack || in_ro {
                return Some(("pure/no-region-for-readable-sp".into(), format!("sp {:#x} lies in readable memory but no stack region was found", c.sp)));
            }
            None // "or is empty"
        }
    }
}

fn run_pure(ctx: &Ctx, rep: &mut Report) {
    let t = IdleTarget::spawn();
    let mut d = t.dumper();
    d.page_size = PAGE as usize;
    let offsets: Vec<u64> = if ctx.tier.is_thorough() { (0..4096).collect() } else { (0..4096).filter(|o| o % 8 == 0 || [1u64, 7, 9, 15, 2047, 2049, 4087, 4089, 4095].contains(o)).collect() };
    let mut cases: Vec<PureCase> = Vec::new();
    for stack_pages in [1u64, 2, 33] {
        for below in 0..4u8 {
            for page in [0, stack_pages / 2, stack_pages - 1] {
                for &o in &offsets {
                    cases.push(PureCase { stack_pages, sp: BASE + page * PAGE + o, below, note: "inside" });
                }
            }
            // below the stack at guard distances
            for dpages in [1u64, 2, 255, 256, 257, 258, 300, 1024] {
                for o in [0u64, 8, 4095] {
                    cases.push(PureCase { stack_pages, sp: BASE - dpages * PAGE + o, below, note: "below" });
                }
            }
            // above the stack / extreme values
            for sp in [BASE + stack_pages * PAGE, BASE + stack_pages * PAGE + 8, 0, 8, 4095, 4096, 1 << 47, (1 << 47) - 4096] {
                cases.push(PureCase { stack_pages, sp, below, note: "outside" });
            }
        }
    }
    for c in &cases {
        d.mappings = pure_layout(c);
        rep.evaluations += 1;
        let r = match guarded(|| d.get_stack_info(c.sp as usize)) {
            Ok(Ok(x)) => Ok(x),
            Ok(Err(e)) => Err(format!("{e:?}")),
            Err(p) => Err(format!("panic: {p}")),
        };
        rep.outcome(match &r {
            Ok((s, l)) => ((*s as u64).wrapping_sub(c.sp) >> 12) ^ ((*l as u64) << 20),
            Err(_) => 1,
        });
        if c.note != "inside" {
            rep.nontrivial += 1;
        }
        if let Some((k, m)) = pure_oracle(c, &r) {
            rep.violation(&k, &m, json!({"pure": {"stack_pages": c.stack_pages, "sp": c.sp, "below": c.below}}));
        }
    }
    rep.set("pure_cases", json!(cases.len()));
    drop(d);
}

// ------------------------------------------------------------------------------------ part 2

#[derive(Clone, Debug)]
pub struct E2e {
    n: usize,            // threads including main
    offsets: Vec<u64>,   // in-page offset of rsp for spin thread i (cycled)
    limit: i64,          // -1 none, otherwise delta code: 0 => T-1, 1 => T, 2 => T+1, 3 => 0, 4 => u64::MAX
    ctx_pos: Option<usize>, // crash context on the spin thread with this index
    sanitize: bool,
    /// the first two spin threads have their stacks in mappings BELOW the executable (fixed low addresses)
    low: bool,
    /// the spin threads at positions >= 20 (or all, for small N) have their stack pointer BELOW their
    /// stack region, inside the inaccessible guard page in front of it (an overflowed stack)
    below: bool,
    /// the first spin thread's stack region is larger than 4 MiB (1300 pages of non-repeating content)
    big: bool,
}

impl E2e {
    fn to_json(&self) -> Value {
        json!({"e2e": {"n": self.n, "offsets": self.offsets, "limit": self.limit, "ctx_pos": self.ctx_pos, "sanitize": self.sanitize, "low": self.low, "below": self.below, "big": self.big}})
    }
    fn from_json(v: &Value) -> Option<E2e> {
        let e = v.get("e2e")?;
        Some(E2e {
            n: e.get("n")?.as_u64()? as usize,
            offsets: e.get("offsets")?.as_array()?.iter().filter_map(|x| x.as_u64()).collect(),
            limit: e.get("limit")?.as_i64()?,
            ctx_pos: e.get("ctx_pos").and_then(|x| x.as_u64()).map(|x| x as usize),
            sanitize: e.get("sanitize")?.as_bool()?,
            low: e.get("low").and_then(|x| x.as_bool()).unwrap_or(false),
            below: e.get("below").and_then(|x| x.as_bool()).unwrap_or(false),
            big: e.get("big").and_then(|x| x.as_bool()).unwrap_or(false),
        })
    }
}

pub fn threshold(n: usize) -> u64 {
    // header 32 + directory 18*12 + list header 4 + n thread records of 48 bytes, + 8 KiB per thread + 64 KiB
    (32 + 18 * 12 + 4 + 48 * n + 8192 * n + 65536) as u64
}

fn run_e2e(c: &E2e) -> Vec<(String, String)> {
    let mut fails = Vec::new();
    let mut p = Puppet::spawn();
    let mut sps = Vec::new();
    let mut regions = Vec::new();
    for i in 0..c.n.saturating_sub(1) {
        let region = if c.low && i < 2 {
            p.cmd(&format!("pattern_at {:#x} 3 rw", 0x2000_0000u64 + 0x10_0000 * i as u64)).ok().and_then(|r| r.first().map(|a| u64::from_str_radix(a.trim_start_matches("0x"), 16).unwrap_or(0))).filter(|a| *a != 0).unwrap_or_else(|| p.pattern(3, "hole", "rw"))
        } else if c.big && i == 0 {
            p.pattern(1300, "hole", "rw")
        } else {
            p.pattern(3, "hole", "rw")
        };
        let off = c.offsets[i % c.offsets.len()];
        // `below`: inside the PROT_NONE guard page that precedes every pattern region
        let rsp = if c.below && (c.n <= 20 || i + 1 >= 20) { region - PAGE + (off & 0xff8).max(8) } else { region + PAGE + off };
        let t = p.mkthread(Kind::Spin);
        p.set_gpr(t, RSP, rsp);
        p.start(t);
        sps.push(rsp);
        regions.push((region, region + if c.big && i == 0 { 1300 } else { 3 } * PAGE));
    }
    p.quiesce();
    let mut o = DumpOpts { sanitize: c.sanitize, ..Default::default() };
    let t_est = threshold(c.n);
    o.size_limit = match c.limit {
        0 => Some(t_est - 1),
        1 => Some(t_est),
        2 => Some(t_est + 1),
        3 => Some(0),
        4 => Some(u64::MAX),
        _ => None,
    };
    let ctx_tid = c.ctx_pos.and_then(|i| p.threads.get(i).map(|t| t.tid));
    if let (Some(tid), Some(i)) = (ctx_tid, c.ctx_pos) {
        o.blamed = Some(tid);
        o.crash = Some(CrashSpec { tid, signo: 11, code: 1, addr: 0, devs: vec![(DIM_RSP, sps[i]), (DIM_RIP, p.threads[i].page + 8)] });
    }
    let bytes = match dump_mem(p.pid, &o) {
        DumpResult::Ok(b) => b,
        DumpResult::Err(e) => {
            fails.push(("dump-failed".into(), e));
            return fails;
        }
        DumpResult::Panic(m) => {
            fails.push(("panic".into(), m));
            return fails;
        }
    };
    let d = Dump::parse(&bytes);
    let maps = parse_maps(&p.maps_text()).unwrap_or_default();
    for (pos, th) in d.threads.iter().enumerate() {
        let Some(i) = p.threads.iter().position(|t| t.tid as u32 == th.tid) else { continue }; // main thread: judged below
        let sp = sps[i];
        let (_, map_end) = regions[i];
        let start = th.stack_start;
        let len = th.stack.size as u64;
        let shortened = start + len != map_end;
        let tag = format!("thread at list position {pos} (sp page offset {}, limit {:?})", sp & 0xfff, o.size_limit);
        if sp < regions[i].0 {
            // sp in the guard page below the stack: the region is empty or begins at the first plausible
            // stack mapping above sp (this thread's region), and the shortening rules still apply
            if len == 0 {
                continue;
            }
            if start != regions[i].0 {
                fails.push(("guard-sp/region-not-at-first-mapping-above".into(), format!("{tag}: sp {sp:#x} lies in the guard page below [{:#x}, {map_end:#x}); the region starts at {start:#x}", regions[i].0)));
            }
            if start + len > map_end {
                fails.push(("guard-sp/region-beyond-mapping".into(), format!("{tag}: region [{start:#x}, +{len}) runs past the mapping end {map_end:#x}")));
            }
            if shortened && (o.size_limit.is_none() || pos < 20 || Some(th.tid as i32) == ctx_tid || len > 2048) {
                fails.push(("guard-sp/wrongly-shortened".into(), format!("{tag}: region [{start:#x}, +{len}) is shortened against the rules")));
            }
            if !c.sanitize {
                let got = &bytes[th.stack.rva as usize..(th.stack.rva + th.stack.size) as usize];
                if got != &p.read(start, len as usize)[..] {
                    fails.push(("guard-sp/bytes-differ-from-target".into(), format!("{tag}: captured bytes differ from the target's memory")));
                }
            }
            continue;
        }
        if len == 0 {
            fails.push(("empty-stack-for-readable-sp".into(), format!("{tag}: no stack captured")));
            continue;
        }
        if start > sp {
            fails.push(("region-starts-above-sp".into(), format!("{tag}: region starts at {start:#x}, sp is {sp:#x}")));
        }
        if sp >= start + len {
            fails.push((if shortened { "sp-not-contained/shortened" } else { "sp-not-contained" }.into(), format!("{tag}: region [{start:#x}, +{len}) does not contain sp {sp:#x}")));
        }
        if !shortened && start != sp & !(PAGE - 1) {
            fails.push(("not-page-of-sp".into(), format!("{tag}: unshortened region starts at {start:#x}, page of sp is {:#x}", sp & !(PAGE - 1))));
        }
        if shortened {
            let limited = o.size_limit.map(|l| t_est > l).unwrap_or(false);
            if o.size_limit.is_none() {
                fails.push(("shortened-without-limit".into(), format!("{tag}: region ends at {:#x}, mapping ends at {map_end:#x}", start + len)));
            } else if pos < 20 {
                fails.push(("base-thread-shortened".into(), format!("{tag}: one of the first 20 threads was shortened")));
            } else if Some(th.tid as i32) == ctx_tid {
                fails.push(("crash-thread-shortened".into(), format!("{tag}: the crash-context thread was shortened")));
            } else if len > 2048 {
                fails.push(("shortened-to-more-than-2k".into(), format!("{tag}: shortened to {len} bytes")));
            } else if !limited {
                fails.push(("shortened-below-threshold".into(), format!("{tag}: limit {:?} is not below the estimate {t_est}", o.size_limit)));
            }
        }
        // positive direction: with a limit that is certainly exceeded, threads from position 20 on
        // (other than the crash-context thread) are cut to at most 2 KiB
        let surely_limited = matches!(c.limit, 0 | 3);
        if surely_limited && pos >= 20 && Some(th.tid as i32) != ctx_tid && len > 2048 {
            fails.push(("extra-thread-not-shortened".into(), format!("{tag}: {len} bytes captured although the size limit is exceeded and this is not one of the first 20 threads")));
        }
        // fidelity from sp upward (sanitisation alters content on purpose)
        if !c.sanitize && sp >= start && sp < start + len {
            let got = &bytes[th.stack.rva as usize..(th.stack.rva + th.stack.size) as usize];
            let want = p.read(sp, (start + len - sp) as usize);
            if got[(sp - start) as usize..] != want[..] {
                fails.push(("bytes-differ-from-target".into(), format!("{tag}: captured bytes from sp upward differ from the target's memory")));
            }
        }
    }
    // main thread: its sp is in [stack]; region must contain it and run to the mapping end
    if let Some(th) = d.threads.iter().find(|t| t.tid == p.pid as u32) {
        if let Some(l) = maps.iter().find(|l| l.name.as_deref() == Some(b"[stack]")) {
            if th.stack.size > 0 && th.stack_start + th.stack.size as u64 != l.end {
                fails.push(("main-thread-not-to-mapping-end".into(), format!("main thread stack ends at {:#x}, [stack] ends at {:#x}", th.stack_start + th.stack.size as u64, l.end)));
            }
        }
    }
    if d.threads.len() != c.n {
        fails.push(("thread-count".into(), format!("{} threads listed, target has {}", d.threads.len(), c.n)));
    }
    fails
}

fn e2e_cases(thorough: bool) -> Vec<E2e> {
    let mut v = Vec::new();
    let key_offsets: Vec<u64> = vec![0, 1, 7, 8, 15, 16, 2040, 2047, 2048, 2049, 2056, 4080, 4088, 4095, 100, 3000];
    // unlimited and limited, N around the 20-thread base: the threads at positions >= 20 get every key offset in turn
    for n in [1usize, 2, 19, 20, 21, 22, 24] {
        for limit in [-1i64, 0, 1, 2, 3, 4] {
            if n < 21 && !(limit == -1 || limit == 0) {
                continue;
            }
            for rot in 0..(if n >= 21 { key_offsets.len() } else { 2 }) {
                if !thorough && n >= 21 && limit > 0 && rot % 4 != 0 {
                    continue;
                }
                // rotate so that the LAST spin threads (positions >= 20) see different offsets
                let mut offs = key_offsets.clone();
                offs.rotate_left(rot);
                // place the interesting offsets at the end of the thread list
                let nspin = n.saturating_sub(1).max(1);
                let offsets: Vec<u64> = (0..nspin).map(|i| offs[(nspin - 1 - i) % offs.len()]).collect();
                v.push(E2e { n, offsets, limit, ctx_pos: None, sanitize: false, low: false, below: false, big: false });
            }
        }
    }
    // crash context on a thread at position >= 20, with a limit that shortens the others
    for off in [8u64, 2048, 3000, 4088] {
        v.push(E2e { n: 23, offsets: vec![off], limit: 0, ctx_pos: Some(20), sanitize: false, low: false, below: false, big: false });
        v.push(E2e { n: 23, offsets: vec![off], limit: 3, ctx_pos: Some(21), sanitize: true, low: false, below: false, big: false });
    }
    // stacks in mappings below the executable (the dumper moves the entry-point mapping to the front of its list)
    for off in [0u64, 8, 2048, 4088] {
        v.push(E2e { n: 4, offsets: vec![off], limit: -1, ctx_pos: None, sanitize: false, low: true, below: false, big: false });
        v.push(E2e { n: 4, offsets: vec![off], limit: -1, ctx_pos: Some(0), sanitize: false, low: true, below: false, big: false });
        v.push(E2e { n: 23, offsets: vec![off], limit: 0, ctx_pos: None, sanitize: false, low: true, below: false, big: false });
    }
    // a stack region of more than 4 MiB (reads that need more than one batch / more than IOV_MAX pages)
    for off in [8u64, 2048] {
        v.push(E2e { n: 3, offsets: vec![off], limit: -1, ctx_pos: None, sanitize: false, low: false, below: false, big: true });
    }
    v.push(E2e { n: 3, offsets: vec![8], limit: -1, ctx_pos: Some(0), sanitize: false, low: false, below: false, big: true });
    // overflowed stacks: sp in the guard page below the stack mapping, with and without the size limit / sanitising
    for (n, limit, sanitize) in [(3usize, -1i64, false), (3, -1, true), (23, 0, false), (23, 0, true), (23, 3, false), (23, -1, false)] {
        for off in [8u64, 2048, 4088] {
            v.push(E2e { n, offsets: vec![off], limit, ctx_pos: None, sanitize, low: false, below: true, big: false });
        }
    }
    // sanitize + limit (the sanitiser sees a copy shorter than the sp offset)
    for off in [2047u64, 2048, 2056, 4095] {
        v.push(E2e { n: 22, offsets: vec![off], limit: 0, ctx_pos: None, sanitize: true, low: false, below: false, big: false });
    }
    if thorough {
        // every in-page offset 0..4095 at a position >= 20: N = 64 gives 43 such threads per puppet
        let per = 43usize;
        let all: Vec<u64> = (0..4096).collect();
        for chunk in all.chunks(per) {
            let mut offsets = vec![8u64; 20];
            offsets.extend_from_slice(chunk);
            while offsets.len() < 63 {
                offsets.push(8);
            }
            v.push(E2e { n: 64, offsets: offsets.clone(), limit: 0, ctx_pos: None, sanitize: false, low: false, below: false, big: false });
            v.push(E2e { n: 64, offsets, limit: -1, ctx_pos: None, sanitize: false, low: false, below: false, big: false });
        }
        v.push(E2e { n: 40, offsets: vec![8, 2048, 4088], limit: 3, ctx_pos: Some(30), sanitize: false, low: false, below: false, big: false });
    }
    v
}

pub fn run(ctx: &Ctx, rep: &mut Report) {
    rep.rule = "part 1: get_stack_info over stack sizes {1,2,33 pages} x 4 below-stack layouts x page position x in-page offset (all 4096 thorough) + guard distances {1,2,255..258,300,1024 pages} + extreme values; part 2: real dumps of spin threads with chosen rsp: N in {1,2,19..24} (thorough + 64 with every offset 0..4095 at a position >= 20) x limit in {none, T-1, T, T+1, 0, MAX} x 16 key offsets at the positions >= 20, crash context at position >= 20, sanitize. nontrivial = pure cases with sp outside the stack mapping + end-to-end cases with a size limit".into();
    if let Some(case) = &ctx.replay {
        if let Some(pc) = case.get("pure") {
            let c = PureCase { stack_pages: pc["stack_pages"].as_u64().unwrap_or(1), sp: pc["sp"].as_u64().unwrap_or(0), below: pc["below"].as_u64().unwrap_or(0) as u8, note: "replay" };
            let t = IdleTarget::spawn();
            let mut d = t.dumper();
            d.page_size = PAGE as usize;
            d.mappings = pure_layout(&c);
            let r = match guarded(|| d.get_stack_info(c.sp as usize)) {
                Ok(Ok(x)) => Ok(x),
                Ok(Err(e)) => Err(format!("{e:?}")),
                Err(p) => Err(format!("panic: {p}")),
            };
            rep.evaluations += 1;
            if let Some((k, m)) = pure_oracle(&c, &r) {
                rep.violation(&k, &m, case.clone());
            }
        } else if let Some(c) = E2e::from_json(case) {
            rep.evaluations += 1;
            for (k, m) in run_e2e(&c) {
                rep.violation(&format!("dump/{k}"), &m, case.clone());
            }
        }
        return;
    }
    run_pure(ctx, rep);
    let cases = e2e_cases(ctx.tier.is_thorough());
    let results = par_map(&cases, |_, c| run_e2e(c));
    for (c, fails) in cases.iter().zip(results) {
        rep.evaluations += 1;
        if c.limit >= 0 {
            rep.nontrivial += 1;
        }
        if rep.samples.len() < 3 && c.n >= 21 && c.limit == 0 {
            rep.sample(c.to_json());
        }
        for (k, m) in fails {
            rep.violation(&format!("dump/{k}"), &m, c.to_json());
        }
    }
    rep.set("end_to_end_dumps", json!(cases.len()));
    rep.states = rep.evaluations;
    rep.transitions = rep.evaluations;
    rep.traces = rep.evaluations;
    rep.exhaustive = true;
}
