//! C18 — OS and process information streams mirror the target.
//!
//! Exhaustive over a menu: argv / environment shapes x descriptor sets x /proc/cpuinfo fixtures x
//! release-file combinations (redirected at the libc boundary) x linker chains reached through the
//! kernel's auxv, through caller-supplied values, and through a mix (precedence). Oracle: byte
//! equality with /proc/<pid>/*, own maps parser, own walk of the target's linker list.

use crate::dump::{DumpOpts, DumpResult};
use crate::env::Alt;
use crate::envrun::{env_dump, EnvSpec};
use crate::puppet::{Kind, Puppet};
use crate::shapes::par_map;
use crate::Ctx;
use mdv_core::mapsref::parse_maps;
use mdv_core::mdparse::*;
use mdv_core::{json, Report, Value};
use std::collections::HashMap;
use std::ffi::OsString;
use std::os::unix::ffi::OsStringExt;

#[derive(Clone, Debug)]
pub struct Case {
    argv: usize,
    env: usize,
    fds: usize,
    cpu: usize,     // 0 = real /proc/cpuinfo, k = fixture k-1
    release: usize, // 0 real, 1 lsb only, 2 os only, 3 both, 4 neither
    uname_fails: bool,
    blame: usize, // 0 the main thread is blamed, 1 a thread with a descriptor table of its own (unshare(CLONE_FILES)) that has diverged from the process's
    linker: usize, // 0 kernel auxv (real chain), 1 direct auxv -> synthetic chain of 3, 2 direct values only for phdr/phnum, 3 direct zero (= unset, kernel's used), 4 synthetic chain of 0 objects, 5 chain with empty/long names, 6 chain whose last name ends on the last byte of readable memory
}

impl Case {
    fn to_json(&self) -> Value {
        json!({"argv": self.argv, "env": self.env, "fds": self.fds, "cpu": self.cpu, "release": self.release, "uname_fails": self.uname_fails, "linker": self.linker, "blame": self.blame})
    }
    fn from_json(v: &Value) -> Option<Case> {
        let g = |k: &str| v.get(k).and_then(|x| x.as_u64()).map(|x| x as usize);
        Some(Case { argv: g("argv")?, env: g("env")?, fds: g("fds")?, cpu: g("cpu")?, release: g("release")?, uname_fails: v.get("uname_fails")?.as_bool()?, linker: g("linker")?, blame: g("blame").unwrap_or(0) })
    }
}

fn argv_set(i: usize) -> Vec<OsString> {
    match i {
        1 => vec!["a".into()],
        2 => vec!["".into(), "x y".into()],
        3 => vec![OsString::from_vec(b"\xff\xfe-not-utf8".to_vec()), "z".into()],
        4 => vec!["L".repeat(5000).into()],
        _ => vec![],
    }
}

fn env_set(i: usize) -> Option<Vec<(OsString, OsString)>> {
    match i {
        1 => Some(vec![]),
        2 => Some(vec![("A".into(), "".into()), ("B C".into(), "x y".into())]),
        3 => Some(vec![("N".into(), OsString::from_vec(b"\xff\xfe".to_vec()))]),
        4 => Some(vec![("BIG".into(), "v".repeat(6000).into())]),
        _ => None, // inherit
    }
}

struct CpuFix {
    text: String,
    nproc: u32,
    family: u16,
    model: u16,
    stepping: u16,
    vendor: &'static str,
    complete: bool,
}

fn cpu_fixtures() -> Vec<CpuFix> {
    let block = |n: u32, vendor: &str, fam: Option<u16>, model: Option<u16>, step: Option<u16>, blank: bool| -> String {
        let mut s = format!("processor\t: {n}\n");
        if !vendor.is_empty() {
            s.push_str(&format!("vendor_id\t: {vendor}\n"));
        } else {
            s.push_str("vendor_id\t: \n");
        }
        if let Some(f) = fam {
            s.push_str(&format!("cpu family\t: {f}\n"));
        }
        if let Some(m) = model {
            s.push_str(&format!("model\t\t: {m}\n"));
        }
        s.push_str("model name\t: Imaginary CPU @ 1.00GHz\n");
        if let Some(st) = step {
            s.push_str(&format!("stepping\t: {st}\n"));
        }
        s.push_str("flags\t\t: fpu vme de : odd colon\n");
        if blank {
            s.push('\n');
        }
        s
    };
    let many = |n: u32, vendor: &str, f: u16, m: u16, st: u16| -> String { (0..n).map(|i| block(i, vendor, Some(f), Some(m), Some(st), true)).collect() };
    vec![
        CpuFix { text: many(1, "GenuineIntel", 6, 142, 10), nproc: 1, family: 6, model: 142, stepping: 10, vendor: "GenuineIntel", complete: true },
        CpuFix { text: many(2, "AuthenticAMD", 25, 1, 1), nproc: 2, family: 25, model: 1, stepping: 1, vendor: "AuthenticAMD", complete: true },
        CpuFix { text: many(255, "GenuineIntel", 6, 85, 7), nproc: 255, family: 6, model: 85, stepping: 7, vendor: "GenuineIntel", complete: true },
        CpuFix { text: many(3, "", 15, 4, 3), nproc: 3, family: 15, model: 4, stepping: 3, vendor: "", complete: true },
        CpuFix { text: format!("\n\n{}", many(4, "AuthenticAMD", 23, 49, 0)), nproc: 4, family: 23, model: 49, stepping: 0, vendor: "AuthenticAMD", complete: true },
        CpuFix { text: block(0, "GenuineIntel", Some(6), None, Some(1), true), nproc: 1, family: 6, model: 0, stepping: 1, vendor: "GenuineIntel", complete: false },
        CpuFix { text: block(0, "GenuineIntel", None, Some(5), None, false), nproc: 1, family: 0, model: 5, stepping: 0, vendor: "GenuineIntel", complete: false },
        CpuFix { text: many(2, "VeryLongVendorIdentifier", 6, 1, 2), nproc: 2, family: 6, model: 1, stepping: 2, vendor: "VeryLongVend", complete: true },
    ]
}

/// Acceptable protection encodings of a memory-map line.  Write-without-read has no exact equivalent in
/// the format: any encoding that keeps the write permission, keeps (and does not invent) the execute
/// permission is accepted there.
fn protection(perms: &[u8; 4]) -> &'static [u32] {
    match (perms[0] == b'r', perms[1] == b'w', perms[2] == b'x') {
        (false, false, false) => &[0x01],
        (true, false, false) => &[0x02],
        (true, true, false) => &[0x04],
        (false, false, true) => &[0x10],
        (true, false, true) => &[0x20],
        (true, true, true) => &[0x40],
        (false, true, false) => &[0x04, 0x08],
        (false, true, true) => &[0x40, 0x80],
    }
}

/// Walk the target's linker list ourselves: (r_version, brk, ldbase, dynamic addr, dynamic bytes, [(l_addr, name, l_ld)]).
fn walk_linker(p: &Puppet, phdr: u64, phnum: u64) -> Option<(u32, u64, u64, u64, Vec<u8>, Vec<(u64, String, u64)>)> {
    let ph = p.read(phdr, (phnum * 56) as usize);
    if ph.len() != (phnum * 56) as usize {
        return None;
    }
    let mut base = phdr & !0xfff;
    let mut dyn_addr = 0u64;
    for i in 0..phnum as usize {
        let ty = u32::from_le_bytes(ph[56 * i..56 * i + 4].try_into().unwrap());
        let off = u64::from_le_bytes(ph[56 * i + 8..56 * i + 16].try_into().unwrap());
        let vaddr = u64::from_le_bytes(ph[56 * i + 16..56 * i + 24].try_into().unwrap());
        if ty == 1 && off == 0 {
            base = base.wrapping_sub(vaddr);
        }
        if ty == 2 {
            dyn_addr = vaddr;
        }
    }
    if dyn_addr == 0 {
        return None;
    }
    dyn_addr = dyn_addr.wrapping_add(base);
    let mut r_debug = 0u64;
    let mut n = 0usize;
    loop {
        let e = p.read(dyn_addr + 16 * n as u64, 16);
        if e.len() != 16 || n > 4096 {
            return None;
        }
        n += 1;
        let tag = u64::from_le_bytes(e[0..8].try_into().unwrap());
        let val = u64::from_le_bytes(e[8..16].try_into().unwrap());
        if tag == 21 {
            r_debug = val;
        }
        if tag == 0 {
            break;
        }
    }
    let dynamic_bytes = p.read(dyn_addr, 16 * n);
    let rd = p.read(r_debug, 40);
    if rd.len() != 40 {
        return None;
    }
    let version = u32::from_le_bytes(rd[0..4].try_into().unwrap());
    let mut cur = u64::from_le_bytes(rd[8..16].try_into().unwrap());
    let brk = u64::from_le_bytes(rd[16..24].try_into().unwrap());
    let ldbase = u64::from_le_bytes(rd[32..40].try_into().unwrap());
    let mut objs = Vec::new();
    while cur != 0 && objs.len() < 1000 {
        let lm = p.read(cur, 40);
        if lm.len() != 40 {
            return None;
        }
        let f = |i: usize| u64::from_le_bytes(lm[8 * i..8 * i + 8].try_into().unwrap());
        let name = if f(1) != 0 {
            let b = p.read(f(1), 256);
            String::from_utf8_lossy(&b[..b.iter().position(|c| *c == 0).unwrap_or(b.len())]).into_owned()
        } else {
            String::new()
        };
        objs.push((f(0), name, f(2)));
        cur = f(3);
    }
    Some((version, brk, ldbase, dyn_addr, dynamic_bytes, objs))
}

/// Put a synthetic linker structure into a window of the target (same layout as C02's).
fn write_synthetic_chain(p: &Puppet, base: u64, names: &[&str], edge: bool) {
    let mut img = vec![0u8; 0x2000];
    let put = |img: &mut Vec<u8>, off: usize, v: u64| img[off..off + 8].copy_from_slice(&v.to_le_bytes());
    // phdrs at 0x100: PT_LOAD off 0 vaddr 0; PT_DYNAMIC vaddr 0x400
    put(&mut img, 0x100, 1 | (5 << 32));
    put(&mut img, 0x100 + 32, 0x2000);
    put(&mut img, 0x138, 2 | (6 << 32));
    put(&mut img, 0x138 + 8, 0x400);
    put(&mut img, 0x138 + 16, 0x400);
    put(&mut img, 0x138 + 32, 0x30);
    // dynamic at 0x400: DT_DEBUG, DT_NEEDED, DT_NULL
    put(&mut img, 0x400, 21);
    put(&mut img, 0x408, base + 0x600);
    put(&mut img, 0x410, 1);
    put(&mut img, 0x418, 0x42);
    // r_debug at 0x600
    put(&mut img, 0x600, 1);
    put(&mut img, 0x608, if names.is_empty() { 0 } else { base + 0x700 });
    put(&mut img, 0x610, base + 0x55);
    put(&mut img, 0x620, base + 0x1000);
    for (i, n) in names.iter().enumerate() {
        let o = 0x700 + 0x40 * i;
        put(&mut img, o, base + 0x100 * i as u64);
        // `edge`: the last object's name ends (with its terminator) on the last byte of the window, the memory
        // behind it is unmapped
        let so = if edge && i + 1 == names.len() { 0x2000 - n.len() - 1 } else { 0x900 + 0x110 * i };
        put(&mut img, o + 8, if n.is_empty() && i == 0 { 0 } else { base + so as u64 });
        put(&mut img, o + 16, base + 0x400 + i as u64);
        put(&mut img, o + 24, if i + 1 < names.len() { base + (0x700 + 0x40 * (i + 1)) as u64 } else { 0 });
        img[so..so + n.len()].copy_from_slice(n.as_bytes());
    }
    p.write(base, &img);
}

/// The parts of the property that can be judged for ANY quiescent target from its pid alone: raw
/// streams are byte copies of the /proc files, the memory-info list mirrors the memory map line by
/// line, the handle stream mirrors the open descriptors.
pub fn proc_mirror(pid: i32, bytes: &[u8]) -> Vec<(String, String)> {
    let mut fails: Vec<(String, String)> = Vec::new();
    let d = Dump::parse(bytes);
    let bytes = bytes.to_vec();
    // a. raw copies
    for (ty, file) in [(ST_LINUX_CMD_LINE, "cmdline"), (ST_LINUX_ENVIRON, "environ"), (ST_LINUX_AUXV, "auxv"), (ST_MOZ_LINUX_LIMITS, "limits"), (ST_LINUX_MAPS, "maps")] {
        let want = std::fs::read(format!("/proc/{pid}/{file}")).unwrap_or_default();
        match d.raw_bytes(&bytes, ty) {
            Some(got) if got == &want[..] => {}
            Some(got) => fails.push((format!("raw-stream-differs/{file}"), format!("the {file} stream ({} bytes) is not a byte copy of /proc/<pid>/{file} ({} bytes)", got.len(), want.len()))),
            None => fails.push((format!("raw-stream-missing/{file}"), format!("no {file} stream"))),
        }
    }
    // b. memory info list
    let lines = parse_maps(&std::fs::read(format!("/proc/{pid}/maps")).unwrap_or_default()).unwrap_or_default();
    if d.meminfo.len() != lines.len() {
        fails.push(("meminfo-count".into(), format!("{} memory-info entries for {} memory-map lines", d.meminfo.len(), lines.len())));
    } else {
        for (m, l) in d.meminfo.iter().zip(lines.iter()) {
            if m.base != l.start || m.region_size != l.end - l.start {
                fails.push(("meminfo-range".into(), format!("entry [{:#x}, +{:#x}) vs line [{:#x}, {:#x})", m.base, m.region_size, l.start, l.end)));
                break;
            }
            if !protection(&l.perms).contains(&m.prot) {
                fails.push(("meminfo-protection".into(), format!("line {} has protection {:#x}", l.text(), m.prot)));
                break;
            }
            let want_ty = if l.private() { 0x20000 } else { 0x40000 };
            if m.ty != want_ty {
                fails.push(("meminfo-type".into(), format!("line {} has type {:#x}", l.text(), m.ty)));
                break;
            }
        }
    }
    // c. handles
    let mut fdlist: Vec<(u64, String, u32)> = Vec::new();
    if let Ok(rd) = std::fs::read_dir(format!("/proc/{pid}/fd")) {
        for e in rd.flatten() {
            let Ok(n) = e.file_name().to_string_lossy().parse::<u64>() else { continue };
            let target = std::fs::read_link(e.path()).map(|t| t.to_string_lossy().into_owned()).unwrap_or_default();
            let mode = unsafe {
                let mut st: libc::stat = std::mem::zeroed();
                let cp = std::ffi::CString::new(e.path().to_string_lossy().as_bytes()).unwrap();
                if libc::stat(cp.as_ptr(), &mut st) == 0 { st.st_mode } else { 0 }
            };
            fdlist.push((n, target, mode));
        }
    }
    if d.handles.len() != fdlist.len() {
        fails.push(("handle-count".into(), format!("{} handle descriptors for {} open descriptors", d.handles.len(), fdlist.len())));
    }
    for (n, target, mode) in &fdlist {
        match d.handles.iter().find(|h| h.handle == *n) {
            None => fails.push(("handle-missing".into(), format!("descriptor {n} -> {target} has no handle entry"))),
            Some(h) => {
                if h.object_name.as_deref() != Some(target.as_str()) {
                    fails.push(("handle-target".into(), format!("descriptor {n}: recorded {:?}, link target is {target:?}", h.object_name)));
                }
                if h.attributes != *mode {
                    fails.push(("handle-mode".into(), format!("descriptor {n}: recorded mode {:#o}, file mode is {mode:#o}", h.attributes)));
                }
            }
        }
    }
    fails
}

/// The linker debug stream against the checker's own walk of the linker list that (phdr, phnum) lead to.
fn judge_dso(p: &Puppet, use_phdr: u64, use_phnum: u64, d: &Dump, tag: &str) -> Vec<(String, String)> {
    let mut fails: Vec<(String, String)> = Vec::new();
    match (walk_linker(p, use_phdr, use_phnum), &d.dso) {
        (Some((ver, brk, ldbase, dyn_addr, dyn_bytes, objs)), Some(dso)) => {
            if dso.version != ver || dso.brk != brk || dso.ldbase != ldbase || dso.dynamic != dyn_addr {
                fails.push((format!("{tag}dso-header"), format!("version/brk/ldbase/dynamic {}/{:#x}/{:#x}/{:#x}, the target has {ver}/{brk:#x}/{ldbase:#x}/{dyn_addr:#x}", dso.version, dso.brk, dso.ldbase, dso.dynamic)));
            }
            if dso.dynamic_bytes != dyn_bytes {
                fails.push((format!("{tag}dso-dynamic-bytes"), "the copied dynamic section differs from the target's".into()));
            }
            let got: Vec<(u64, String, u64)> = dso.maps.iter().map(|m| (m.addr, m.name.clone().unwrap_or_default(), m.ld)).collect();
            if got != objs {
                let i = got.iter().zip(objs.iter()).position(|(a, b)| a != b).unwrap_or(got.len().min(objs.len()));
                fails.push((format!("{tag}dso-object-list"), format!("{} objects listed, the linker list has {}; first difference at #{i}: {:?} vs {:?}", got.len(), objs.len(), got.get(i), objs.get(i))));
            }
        }
        (Some(_), None) => fails.push((format!("{tag}dso-missing"), "no linker debug stream although the linker list is readable".into())),
        (None, _) => {}
    }
    fails
}

pub fn run_case(c: &Case) -> Vec<(String, String)> {
    let mut fails = Vec::new();
    let env = env_set(c.env);
    let mut p = Puppet::spawn_with(&argv_set(c.argv), env.as_deref());
    p.add_thread(Kind::Block);
    let window = p.pattern(2, "hole", "rw");
    // every permission combination, private and shared, appears in the target's memory map
    for prot in ["---", "r--", "-w-", "--x", "rw-", "r-x", "-wx", "rwx"] {
        p.pattern(1, "none", prot);
        let _ = p.cmd(&format!("shm 4096 {prot}"));
    }
    let dir = "/verif/target/tmp";
    let _ = std::fs::create_dir_all(dir);
    for k in 0..c.fds {
        let kind = ["devnull", "pipe", "socket", "file", "dir", "unlinked", "eventfd", "epoll", "high", "creat", "creat2"][k % 11];
        let path: String = match kind {
            // a path close to PATH_MAX components' limit, with spaces and non-ASCII characters
            "creat" => format!("{dir}/{}_{}", "long name \u{e9}\u{1f980} ".repeat(9).trim_end(), p.pid),
            "creat2" => format!("{dir}/new\nline_{}", p.pid),
            "file" => "/verif/target/fixtures/plain.bin".into(),
            "dir" => "/verif/target/fixtures".into(),
            "unlinked" => format!("{dir}/unlinked_{}_{k}", p.pid),
            _ => String::new(),
        };
        let _ = p.cmd(&format!("fd {} {}", if kind == "creat2" { "creat" } else { kind }, mdv_core::hex(path.as_bytes())));
    }
    p.quiesce();
    let (phdr, phnum, gate, entry) = p.auxv();
    p.quiesce();
    let mut plan: Vec<(String, Alt)> = Vec::new();
    let fixtures = cpu_fixtures();
    let tag = format!("{}_{:?}", std::process::id(), std::thread::current().id()).replace(['(', ')'], "");
    if c.cpu > 0 {
        let path = format!("{dir}/cpuinfo_{tag}");
        let _ = std::fs::write(&path, &fixtures[c.cpu - 1].text);
        plan.push(("open:/proc/cpuinfo#0".into(), Alt::Redirect(path.clone())));
        plan.push(("open:/proc/cpuinfo#1".into(), Alt::Redirect(path)));
    }
    let lsb_path = format!("{dir}/lsb_{tag}");
    let os_path = format!("{dir}/os_{tag}");
    let _ = std::fs::write(&lsb_path, "DISTRIB_ID=Checker\nDISTRIB_RELEASE=1.0\n");
    let _ = std::fs::write(&os_path, "NAME=\"Checker OS\"\nVERSION_ID=\"2\"\n");
    let expected_release: Option<Vec<u8>> = match c.release {
        1 => {
            plan.push(("open:/etc/lsb-release#0".into(), Alt::Redirect(lsb_path.clone())));
            plan.push(("open:/etc/os-release#0".into(), Alt::Errno(libc::ENOENT)));
            std::fs::read(&lsb_path).ok()
        }
        2 => {
            plan.push(("open:/etc/lsb-release#0".into(), Alt::Errno(libc::ENOENT)));
            plan.push(("open:/etc/os-release#0".into(), Alt::Redirect(os_path.clone())));
            std::fs::read(&os_path).ok()
        }
        3 => {
            plan.push(("open:/etc/lsb-release#0".into(), Alt::Redirect(lsb_path.clone())));
            plan.push(("open:/etc/os-release#0".into(), Alt::Redirect(os_path.clone())));
            std::fs::read(&lsb_path).ok()
        }
        4 => {
            plan.push(("open:/etc/lsb-release#0".into(), Alt::Errno(libc::ENOENT)));
            plan.push(("open:/etc/os-release#0".into(), Alt::Errno(libc::ENOENT)));
            None
        }
        _ => std::fs::read("/etc/lsb-release").or_else(|_| std::fs::read("/etc/os-release")).ok(),
    };
    if c.uname_fails {
        plan.push(("uname#0".into(), Alt::Errno(libc::EFAULT)));
    }
    let mut o = DumpOpts::default();
    if c.blame == 1 {
        match p.unshared_fd_thread() {
            Ok(t) => o.blamed = Some(t),
            Err(e) => {
                fails.push(("MACHINERY".into(), format!("unshared_fd_thread: {e}")));
                return fails;
            }
        }
    }
    let syn_names: Vec<&str> = match c.linker {
        1 | 2 => vec!["", "/lib/libone.so", "/opt/x y/libtwo.so.2"],
        4 => vec![],
        6 => vec!["", "/lib/libone.so", "/opt/near the edge/libedge.so.3"],
        5 => vec!["", "", "/a-rather-long-name/0123456789012345678901234567890123456789012345678901234567890123456789012345678901234567890123456789/lib.so"],
        _ => vec![],
    };
    let (use_phdr, use_phnum) = match c.linker {
        1 | 4 | 5 | 6 => {
            write_synthetic_chain(&p, window, &syn_names, c.linker == 6);
            o.direct_auxv = Some((2, window + 0x100, gate, entry));
            (window + 0x100, 2)
        }
        2 => {
            // only the program-header fields are supplied: the other two must come from the kernel
            write_synthetic_chain(&p, window, &syn_names, c.linker == 6);
            o.direct_auxv = Some((2, window + 0x100, 0, 0));
            (window + 0x100, 2)
        }
        3 => {
            // zero means unset: the kernel's values are used
            o.direct_auxv = Some((0, 0, 0, 0));
            (phdr, phnum)
        }
        _ => (phdr, phnum),
    };
    let o2 = o.clone();
    let out = env_dump(&p, &EnvSpec { opts: o, plan, ..Default::default() }, HashMap::new(), None);
    let bytes = match &out.result {
        DumpResult::Ok(b) => b.clone(),
        other => {
            fails.push(("dump-failed".into(), format!("{other:?}")));
            return fails;
        }
    };
    p.quiesce();
    let d = Dump::parse(&bytes);
    let pid = p.pid;
    fails.extend(proc_mirror(pid, &bytes));
    match (d.raw_bytes(&bytes, ST_LINUX_LSB_RELEASE), &expected_release) {
        (Some(got), Some(want)) if got == &want[..] => {}
        (None, None) => {}
        (got, want) => fails.push(("release-stream".into(), format!("release stream {:?} but expected {:?}", got.map(|g| String::from_utf8_lossy(g).into_owned()), want.as_ref().map(|w| String::from_utf8_lossy(w).into_owned())))),
    }
    if c.cpu > 0 {
        if d.raw_bytes(&bytes, ST_LINUX_CPU_INFO) != Some(fixtures[c.cpu - 1].text.as_bytes()) {
            fails.push(("raw-stream-differs/cpuinfo".into(), "the cpuinfo stream is not a byte copy of /proc/cpuinfo".into()));
        }
    }
    // d. system info
    if let Some(s) = &d.sysinfo {
        if s.platform_id != 0x8201 {
            fails.push(("sysinfo-platform".into(), format!("platform id {:#x} is not Linux", s.platform_id)));
        }
        if s.arch != 9 {
            fails.push(("sysinfo-arch".into(), format!("processor architecture {} is not AMD64", s.arch)));
        }
        if c.cpu > 0 {
            let f = &fixtures[c.cpu - 1];
            if f.complete {
                let rev = (f.model << 8) | f.stepping;
                if s.nproc as u32 != f.nproc || s.level != f.family || s.revision != rev {
                    fails.push(("sysinfo-cpu".into(), format!("count/family/revision {}/{}/{:#x}, /proc/cpuinfo says {}/{}/{:#x}", s.nproc, s.level, s.revision, f.nproc, f.family, rev)));
                }
                let v = f.vendor.as_bytes();
                if s.cpu[..v.len()] != v[..] {
                    fails.push(("sysinfo-vendor".into(), format!("vendor {:?}, expected {:?}", String::from_utf8_lossy(&s.cpu[..12]), f.vendor)));
                }
            }
        }
        match &s.csd {
            Some(csd) if c.uname_fails => {
                if !csd.starts_with("Linux") {
                    fails.push(("sysinfo-os-string".into(), format!("OS version string {csd:?}")));
                }
            }
            Some(csd) => {
                let u = unsafe {
                    let mut u: libc::utsname = std::mem::zeroed();
                    libc::uname(&mut u);
                    let f = |a: &[libc::c_char]| std::ffi::CStr::from_ptr(a.as_ptr()).to_string_lossy().into_owned();
                    format!("{} {} {} {}", f(&u.sysname), f(&u.release), f(&u.version), f(&u.machine))
                };
                if csd != &u {
                    fails.push(("sysinfo-os-string".into(), format!("OS version string {csd:?}, uname says {u:?}")));
                }
            }
            None => fails.push(("sysinfo-os-string".into(), "no OS version string".into())),
        }
    } else {
        fails.push(("sysinfo-missing".into(), "no system info stream".into()));
    }
    // e. linker debug stream
    fails.extend(judge_dso(&p, use_phdr, use_phnum, &d, ""));
    // ... and again for the SECOND request on one writer with the same configuration (caller-supplied values
    // must still win then)
    if c.cpu == 0 && c.release == 0 && !c.uname_fails {
        p.quiesce();
        let mut w = crate::dump::make_writer(p.pid, &o2);
        let mut c1 = std::io::Cursor::new(Vec::new());
        let _ = crate::dump::dump_with(&mut w, &mut c1);
        p.quiesce();
        let mut c2 = std::io::Cursor::new(Vec::new());
        if let DumpResult::Ok(b2) = crate::dump::dump_with(&mut w, &mut c2) {
            let d2 = Dump::parse(&b2);
            fails.extend(judge_dso(&p, use_phdr, use_phnum, &d2, "second-request/"));
            for (k, m) in proc_mirror(pid, &b2) {
                fails.push((format!("second-request/{k}"), m));
            }
        } else {
            fails.push(("second-request/dump-failed".into(), "the second request on the same writer failed".into()));
        }
    }
    for k in 0..c.fds {
        let _ = std::fs::remove_file(format!("{dir}/unlinked_{}_{k}", p.pid));
        let _ = std::fs::remove_file(format!("{dir}/{}_{}", "long name \u{e9}\u{1f980} ".repeat(9).trim_end(), p.pid));
        let _ = std::fs::remove_file(format!("{dir}/new\nline_{}", p.pid));
    }
    fails
}

fn menu(thorough: bool) -> Vec<Case> {
    let mut v = Vec::new();
    let base = Case { argv: 0, env: 0, fds: 0, cpu: 0, release: 0, uname_fails: false, linker: 0, blame: 0 };
    v.push(base.clone());
    for a in 1..5 {
        v.push(Case { argv: a, ..base.clone() });
    }
    for e in 1..5 {
        v.push(Case { env: e, ..base.clone() });
    }
    for f in [1usize, 5, 6, 11, 12, 23] {
        v.push(Case { fds: f, ..base.clone() });
    }
    for c in 1..=cpu_fixtures().len() {
        v.push(Case { cpu: c, ..base.clone() });
    }
    for r in 1..5 {
        v.push(Case { release: r, ..base.clone() });
    }
    v.push(Case { uname_fails: true, ..base.clone() });
    v.push(Case { blame: 1, ..base.clone() });
    v.push(Case { blame: 1, fds: 5, ..base.clone() });
    for l in 1..7 {
        v.push(Case { linker: l, ..base.clone() });
    }
    // combinations
    v.push(Case { argv: 2, env: 2, fds: 6, cpu: 2, release: 3, uname_fails: false, linker: 1, blame: 0 });
    v.push(Case { argv: 3, env: 3, fds: 12, cpu: 4, release: 1, uname_fails: true, linker: 2, blame: 0 });
    if thorough {
        for a in 0..5 {
            for e in 0..5 {
                for l in [0usize, 1, 3] {
                    v.push(Case { argv: a, env: e, fds: (a + e) % 7, cpu: (a * 5 + e) % 9, release: (a + e) % 5, uname_fails: false, linker: l, blame: 0 });
                }
            }
        }
    }
    v
}

pub fn run(ctx: &Ctx, rep: &mut Report) {
    rep.rule = "menu: argv {none, [a], ['', 'x y'], non-UTF-8, 5000 bytes} / environment likewise / 0..23 descriptors of 11 kinds / 8 /proc/cpuinfo fixtures (1, 2, 3, 4, 255 processors; Intel / AMD / empty / over-long vendor; missing fields; leading blank lines) / 4 release-file combinations / uname failing / 6 linker-chain shapes reached through kernel auxv, caller-supplied values and a mix; each dimension alone against the default (thorough: argv x env x 3 linker shapes product). nontrivial = cases that deviate from the default target".into();
    rep.assume("the target is quiescent, so /proc/<pid>/* read after the dump equals what the writer saw");
    if let Some(case) = &ctx.replay {
        let Some(c) = Case::from_json(case) else {
            rep.machinery("bad replay".into());
            return;
        };
        rep.evaluations += 1;
        for (k, m) in run_case(&c) {
            rep.violation(&k, &m, case.clone());
        }
        return;
    }
    let cases = menu(ctx.tier.is_thorough());
    let results = par_map(&cases, |_, c| run_case(c));
    for (c, fails) in cases.iter().zip(results) {
        rep.evaluations += 1;
        rep.nontrivial += 1;
        rep.outcome(mdv_core::fnv(format!("{:?}{}", c, fails.len()).as_bytes()));
        if rep.samples.len() < 3 && c.linker > 0 {
            rep.sample(c.to_json());
        }
        for (k, m) in fails {
            if k == "MACHINERY" {
                rep.machinery(m);
                continue;
            }
            rep.violation(&k, &m, c.to_json());
        }
    }
    rep.states = rep.evaluations;
    rep.transitions = rep.evaluations;
    rep.traces = rep.evaluations;
    rep.exhaustive = true;
}
