//! C11 — best-effort steps fail softly and every failure is reported.
//!
//! ENV explorer: (a) all 32 subsets of the five fail points x N in {1,3} x crash context on/off;
//! (b) every natural failure of a best-effort step injected world-consistently at the libc
//! boundary (singles quick, all pairs thorough). Oracle: dump Ok; the soft-error stream is a JSON
//! array that mentions every injected failure under its step and is `[]` without injection; every
//! stream not fed by the failed step equals the baseline dump's normalised decoding.

use crate::checks::c01::env_of;
use crate::dump::{CrashSpec, DumpOpts, DumpResult, DIM_RIP, DIM_RSP};
use crate::env::Alt;
use crate::envrun::{env_dump, EnvSpec, FAILPOINTS};
use crate::shapes::{build, par_map, Shape};
use crate::Ctx;
use mdv_core::mdparse::{Dump, NormOpts, ST_MOZ_SOFT_ERRORS};
use mdv_core::{json, Report, Value};
use std::collections::HashMap;

#[derive(Clone, Debug, Default)]
pub struct Inj {
    pub name: String,
    pub plan: Vec<(String, Alt)>,
    pub failpoints: u8,
    /// option tweak: 0 none, 1 stop timeout 5 ms, 2 direct auxv with unreadable phdr, 3 skip-unreferenced with unknown principal
    pub opt: u8,
    /// (needle, minimum number of occurrences) in the serialised soft-error JSON
    pub expect: Vec<(String, usize)>,
    /// top-level keys of the normalised decoding that may differ from the baseline ("*" = all)
    pub allowed: Vec<String>,
}

fn e(s: &str) -> (String, usize) {
    (s.to_string(), 1)
}

pub fn injectables(n: usize, stat_fixture: &str, auxv_trunc: &str) -> Vec<Inj> {
    let mut v = Vec::new();
    let mut add = |name: &str, plan: Vec<(&str, Alt)>, fps: u8, opt: u8, expect: Vec<(String, usize)>, allowed: &[&str]| {
        v.push(Inj { name: name.into(), plan: plan.into_iter().map(|(k, a)| (k.to_string(), a)).collect(), failpoints: fps, opt, expect, allowed: allowed.iter().map(|s| s.to_string()).collect() });
    };
    let en = |x| Alt::Errno(x);
    add("failpoint StopProcess", vec![], 1, 0, vec![e("StopProcessFailed")], &[]);
    add("kill(SIGSTOP) -> EPERM", vec![("stop#0", en(libc::EPERM))], 0, 0, vec![e("StopProcessFailed"), e("EPERM")], &[]);
    let polls: Vec<(String, Alt)> = (0..40).map(|k| (format!("open:/proc/P/stat#{k}"), Alt::Redirect(stat_fixture.to_string()))).collect();
    v.push(Inj { name: "target never seen stopped (timeout)".into(), plan: polls, failpoints: 0, opt: 1, expect: vec![e("StopProcessFailed"), e("Timeout")], allowed: vec![] });
    let mut add = |name: &str, plan: Vec<(&str, Alt)>, fps: u8, opt: u8, expect: Vec<(String, usize)>, allowed: &[&str]| {
        v.push(Inj { name: name.into(), plan: plan.into_iter().map(|(k, a)| (k.to_string(), a)).collect(), failpoints: fps, opt, expect, allowed: allowed.iter().map(|s| s.to_string()).collect() });
    };
    add("failpoint FillMissingAuxvInfo", vec![], 2, 0, vec![e("FillMissingAuxvInfoErrors"), e("InvalidFormat")], &[]);
    let no_auxv = ["dso", "modules", "raw.LinuxDsoDebug", "streams"];
    add("open(auxv) at init -> ENOENT", vec![("open:/proc/P/auxv#0", en(libc::ENOENT))], 0, 0, vec![e("FillMissingAuxvInfoFailed"), e("WriteDSODebugStreamFailed")], &no_auxv);
    add("open(auxv) at init -> EACCES", vec![("open:/proc/P/auxv#0", en(libc::EACCES))], 0, 0, vec![e("FillMissingAuxvInfoFailed")], &no_auxv);
    add("auxv truncated mid-pair", vec![("open:/proc/P/auxv#0", Alt::Redirect(auxv_trunc.to_string()))], 0, 0, vec![e("FillMissingAuxvInfoErrors"), e("InvalidFormat")], &no_auxv);
    add("open(auxv) for the stream -> ENOENT", vec![("open:/proc/P/auxv#1", en(libc::ENOENT))], 0, 0, vec![e("WriteAuxvFailed")], &["raw.LinuxAuxv", "streams"]);
    for i in 0..n {
        let k = format!("open:/proc/P/task/t{i}/comm#0");
        v.push(Inj { name: format!("open(comm of thread {i}) -> ENOENT"), plan: vec![(k, en(libc::ENOENT))], failpoints: 0, opt: 0, expect: vec![("ReadThreadNameFailed".into(), 1)], allowed: vec!["thread_names".into()] });
    }
    v.push(Inj {
        name: "open(comm) fails for every thread".into(),
        plan: (0..n).map(|i| (format!("open:/proc/P/task/t{i}/comm#0"), en(libc::EACCES))).collect(),
        failpoints: 0,
        opt: 0,
        expect: vec![("ReadThreadNameFailed".into(), n)],
        allowed: vec!["thread_names".into()],
    });
    v.push(Inj { name: "failpoint ThreadName".into(), failpoints: 4, expect: vec![("ReadThreadNameFailed".into(), n)], allowed: vec!["thread_names".into()], ..Default::default() });
    // losing a thread may only remove THAT thread's entries (list entry, name, stack region); see drop_lost_threads
    let thread_loss = ["lost-threads"];
    for i in 0..n {
        for (en_name, errno) in [("EPERM", libc::EPERM), ("ESRCH", libc::ESRCH)] {
            v.push(Inj {
                name: format!("attach(thread {i}) -> {en_name}"),
                plan: vec![(format!("attach:t{i}"), en(errno))],
                failpoints: 0,
                opt: 0,
                expect: vec![e("SuspendThreadsErrors"), e("PtraceAttachError"), e(en_name)],
                allowed: thread_loss.iter().map(|s| s.to_string()).collect(),
            });
        }
    }
    v.push(Inj {
        name: "attach fails for every thread".into(),
        plan: (0..n).map(|i| (format!("attach:t{i}"), en(libc::EPERM))).collect(),
        failpoints: 0,
        opt: 0,
        expect: vec![("PtraceAttachError".into(), n), e("SuspendNoThreadsLeft")],
        allowed: thread_loss.iter().map(|s| s.to_string()).collect(),
    });
    let mut add = |name: &str, plan: Vec<(&str, Alt)>, fps: u8, opt: u8, expect: Vec<(String, usize)>, allowed: &[&str]| {
        v.push(Inj { name: name.into(), plan: plan.into_iter().map(|(k, a)| (k.to_string(), a)).collect(), failpoints: fps, opt, expect, allowed: allowed.iter().map(|s| s.to_string()).collect() });
    };
    add("failpoint SuspendThreads", vec![], 8, 0, vec![e("SuspendThreadsErrors"), e("PtraceAttachError"), e("1234")], &[]);
    add("failpoint CpuInfoFileOpen", vec![], 16, 0, vec![e("WriteSystemInfoErrors"), e("WriteCpuInformationFailed")], &["sysinfo.cpu"]);
    add("open(/proc/cpuinfo) for system info -> ENOENT", vec![("open:/proc/cpuinfo#0", en(libc::ENOENT))], 0, 0, vec![e("WriteSystemInfoErrors"), e("WriteCpuInformationFailed")], &["sysinfo.cpu"]);
    {
        // a /proc/cpuinfo without the model / stepping fields: the CPU-information step fails softly
        let path = format!("/verif/target/tmp/cpuinfo_incomplete_{}", std::process::id());
        let _ = std::fs::create_dir_all("/verif/target/tmp");
        let _ = std::fs::write(&path, "processor\t: 0\nvendor_id\t: GenuineIntel\ncpu family\t: 6\nflags\t\t: fpu\n\n");
        v.push(Inj { name: "cpuinfo without model and stepping (system info)".into(), plan: vec![("open:/proc/cpuinfo#0".into(), Alt::Redirect(path))], failpoints: 0, opt: 0, expect: vec![e("WriteSystemInfoErrors"), e("WriteCpuInformationFailed")], allowed: vec!["sysinfo.cpu".into()] });
    }
    let mut add = |name: &str, plan: Vec<(&str, Alt)>, fps: u8, opt: u8, expect: Vec<(String, usize)>, allowed: &[&str]| {
        v.push(Inj { name: name.into(), plan: plan.into_iter().map(|(k, a)| (k.to_string(), a)).collect(), failpoints: fps, opt, expect, allowed: allowed.iter().map(|s| s.to_string()).collect() });
    };
    add("open(/proc/cpuinfo) for the stream -> EMFILE", vec![("open:/proc/cpuinfo#1", en(libc::EMFILE))], 0, 0, vec![e("WriteCpuInfoFailed")], &["raw.LinuxCpuInfo", "streams"]);
    add("open(status) for the stream -> EACCES", vec![("open:/proc/P/status#1", en(libc::EACCES))], 0, 0, vec![e("WriteThreadProcStatusFailed")], &["raw.LinuxProcStatus", "streams"]);
    add("both release files unreadable", vec![("open:/etc/lsb-release#0", en(libc::ENOENT)), ("open:/etc/os-release#0", en(libc::ENOENT))], 0, 0, vec![e("WriteOsReleaseInfoFailed")], &["raw.LinuxLsbRelease", "streams"]);
    add("open(cmdline) -> ENOENT", vec![("open:/proc/P/cmdline#0", en(libc::ENOENT))], 0, 0, vec![e("WriteCommandLineFailed")], &["raw.LinuxCmdLine", "streams"]);
    add("open(environ) -> EACCES", vec![("open:/proc/P/environ#0", en(libc::EACCES))], 0, 0, vec![e("WriteEnvironmentFailed")], &["raw.LinuxEnviron", "streams"]);
    add("open(maps) for the stream -> ENOENT", vec![("open:/proc/P/maps#2", en(libc::ENOENT))], 0, 0, vec![e("WriteMapsFailed")], &["raw.LinuxMaps", "streams"]);
    add("open(limits) -> EMFILE", vec![("open:/proc/P/limits#0", en(libc::EMFILE))], 0, 0, vec![e("WriteLimitsFailed")], &["raw.MozLinuxLimits", "streams"]);
    add("opendir(fd) -> EACCES", vec![("opendir:/proc/P/fd#0", en(libc::EACCES))], 0, 0, vec![e("WriteHandleDataStreamFailed")], &["handles", "streams"]);
    add("program headers unreadable (direct auxv)", vec![], 0, 2, vec![e("WriteDSODebugStreamFailed")], &["dso", "raw.LinuxDsoDebug", "streams"]);
    add("principal mapping unknown", vec![], 0, 3, vec![e("PrincipalMappingNotReferenced")], &["threads", "memory"]);
    add("opendir(task) -> ENOENT", vec![("opendir:/proc/P/task#0", en(libc::ENOENT))], 0, 0, vec![e("EnumerateThreadsFailed")], &["*"]);
    add("open(maps) at init -> EACCES", vec![("open:/proc/P/maps#0", en(libc::EACCES))], 0, 0, vec![e("EnumerateMappingsFailed")], &["*"]);
    v
}

/// The best-effort step an injection targets; two injections into the same step (or into steps
/// that change which calls are made at all) mask each other and are not paired.
fn group(i: &Inj) -> &'static str {
    let n = i.name.as_str();
    if n.contains("StopProcess") || n.contains("SIGSTOP") || n.contains("never seen stopped") {
        "stop"
    } else if n.contains("FillMissingAuxvInfo") || n.contains("auxv) at init") || n.contains("auxv truncated") {
        "auxv-init"
    } else if n.contains("auxv) for the stream") {
        "auxv-stream"
    } else if n.contains("comm") || n.contains("ThreadName") {
        "comm"
    } else if n.contains("attach") {
        "attach"
    } else if n.contains("SuspendThreads") {
        "suspend-fp"
    } else if n.contains("CpuInfoFileOpen") || n.contains("for system info") || n.contains("(system info)") {
        "cpuinfo-sys"
    } else if n.contains("cpuinfo) for the stream") {
        "cpuinfo-stream"
    } else if n.contains("status") {
        "status"
    } else if n.contains("program headers") {
        "dso"
    } else if n.contains("opendir(task)") || n.contains("maps) at init") {
        "structural"
    } else {
        "other"
    }
}

fn conflict(a: &Inj, b: &Inj) -> bool {
    let (ga, gb) = (group(a), group(b));
    if ga == "structural" || gb == "structural" {
        return true; // these change which calls happen at all; explored alone
    }
    if ga == gb && ga != "other" {
        return true;
    }
    let pair = |x: &str, y: &str| (ga == x && gb == y) || (ga == y && gb == x);
    // direct auxv values make the writer skip /proc/<pid>/auxv at init: the open counters shift
    if pair("dso", "auxv-init") || pair("dso", "auxv-stream") || pair("cpuinfo-sys", "cpuinfo-stream") {
        return true;
    }
    // losing the main thread changes which /proc/<pid>/status open is the stream copy
    let loses_main = |i: &Inj| i.name.contains("attach(thread 0)") || i.name.contains("attach fails for every");
    if (loses_main(a) && gb == "status") || (loses_main(b) && ga == "status") {
        return true;
    }
    false
}

fn combine(a: &Inj, b: &Inj) -> Option<Inj> {
    if conflict(a, b) {
        return None;
    }
    // options tweaks must not conflict; same key in both plans -> skip
    if a.opt != 0 && b.opt != 0 {
        return None;
    }
    if a.plan.iter().any(|(k, _)| b.plan.iter().any(|(k2, _)| k == k2)) {
        return None;
    }
    let mut expect: Vec<(String, usize)> = a.expect.clone();
    for (n, c) in &b.expect {
        if let Some(x) = expect.iter_mut().find(|(m, _)| m == n) {
            // the same kind of error injected twice (e.g. two thread names): occurrences add up
            if n == "ReadThreadNameFailed" || n == "PtraceAttachError" {
                x.1 += c;
            }
        } else {
            expect.push((n.clone(), *c));
        }
    }
    let mut allowed = a.allowed.clone();
    allowed.extend(b.allowed.clone());
    Some(Inj { name: format!("{} + {}", a.name, b.name), plan: a.plan.iter().chain(b.plan.iter()).cloned().collect(), failpoints: a.failpoints | b.failpoints, opt: a.opt.max(b.opt), expect, allowed })
}

/// The baseline with the entries of the threads that the faulted dump lost removed: their thread-list
/// entry, their name entry and their stack's memory region; the exception record only when the thread
/// it names is among the lost ones.  Everything else must then compare equal.
fn drop_lost_threads(baseline: &Value, cur: &Value, max_lost: usize) -> Result<Value, String> {
    let tids = |v: &Value| -> Vec<u64> { v.get("threads").and_then(|t| t.as_array()).map(|a| a.iter().filter_map(|t| t.get("tid").and_then(|x| x.as_u64())).collect()).unwrap_or_default() };
    let (bt, ct) = (tids(baseline), tids(cur));
    if let Some(extra) = ct.iter().find(|t| !bt.contains(t)) {
        return Err(format!("thread {extra} is listed although the baseline dump does not have it"));
    }
    let lost: Vec<u64> = bt.iter().copied().filter(|t| !ct.contains(t)).collect();
    if lost.len() > max_lost {
        return Err(format!("{} threads are missing ({lost:?}) but only {max_lost} attach failure(s) were injected", lost.len()));
    }
    let mut o = baseline.as_object().cloned().unwrap_or_default();
    let lost_stacks: Vec<u64> = baseline.get("threads").and_then(|t| t.as_array()).map(|a| a.iter().filter(|t| lost.contains(&t.get("tid").and_then(|x| x.as_u64()).unwrap_or(0))).filter_map(|t| t.get("stack_start").and_then(|x| x.as_u64())).collect()).unwrap_or_default();
    if let Some(Value::Array(a)) = o.get_mut("threads") {
        a.retain(|t| !lost.contains(&t.get("tid").and_then(|x| x.as_u64()).unwrap_or(0)));
    }
    if let Some(Value::Array(a)) = o.get_mut("thread_names") {
        a.retain(|t| !lost.contains(&t.get(0).and_then(|x| x.as_u64()).unwrap_or(0)));
    }
    if let Some(Value::Array(a)) = o.get_mut("memory") {
        a.retain(|m| !lost_stacks.contains(&m.get("start").and_then(|x| x.as_u64()).unwrap_or(u64::MAX)));
    }
    let exc_tid = baseline.get("exception").and_then(|e| e.get("tid")).and_then(|x| x.as_u64());
    if exc_tid.map(|t| lost.contains(&t)).unwrap_or(false) {
        // the crash thread's instruction-pointer window (<= 256 bytes) goes with it
        if let Some(Value::Array(a)) = o.get_mut("memory") {
            a.retain(|m| m.get("bytes").and_then(|b| b.as_str()).and_then(|s| s.rsplit('/').next()).and_then(|n| n.parse::<u64>().ok()).map(|n| n > 256).unwrap_or(true));
        }
        o.remove("exception");
        // (the caller removes it from the faulted dump's side as well)
        o.insert("exception-dropped".into(), json!(true));
    }
    Ok(Value::Object(o))
}

fn strip(norm: &Value, allowed: &[String]) -> Value {
    if allowed.iter().any(|a| a == "*") {
        return json!({});
    }
    let mut o = norm.as_object().cloned().unwrap_or_default();
    // the soft-error stream itself is what changes
    if let Some(raw) = o.get_mut("raw").and_then(|r| r.as_object_mut()) {
        raw.remove("MozSoftErrors");
        for a in allowed {
            if let Some(name) = a.strip_prefix("raw.") {
                raw.remove(name);
            }
        }
    }
    for a in allowed {
        if a == "sysinfo.cpu" {
            // the CPU identification fed by /proc/cpuinfo may be lost; architecture, platform, OS version stay
            if let Some(si) = o.get_mut("sysinfo").and_then(|s| s.as_object_mut()) {
                for k in ["level", "rev", "nproc", "cpu"] {
                    si.remove(k);
                }
            }
            continue;
        }
        o.remove(a.as_str());
    }
    Value::Object(o)
}

/// Every optional stream the writer always attempts: when it is absent from the directory its step
/// failed, and the soft errors must say so.
pub fn absent_streams_unreported(d: &Dump, soft_text: &str) -> Vec<(String, String)> {
    use mdv_core::mdparse as m;
    let table: [(u32, &str, &str); 10] = [
        (m::ST_LINUX_CPU_INFO, "LinuxCpuInfo", "WriteCpuInfoFailed"),
        (m::ST_LINUX_PROC_STATUS, "LinuxProcStatus", "WriteThreadProcStatusFailed"),
        (m::ST_LINUX_LSB_RELEASE, "LinuxLsbRelease", "WriteOsReleaseInfoFailed"),
        (m::ST_LINUX_CMD_LINE, "LinuxCmdLine", "WriteCommandLineFailed"),
        (m::ST_LINUX_ENVIRON, "LinuxEnviron", "WriteEnvironmentFailed"),
        (m::ST_LINUX_AUXV, "LinuxAuxv", "WriteAuxvFailed"),
        (m::ST_LINUX_MAPS, "LinuxMaps", "WriteMapsFailed"),
        (m::ST_LINUX_DSO_DEBUG, "LinuxDsoDebug", "WriteDSODebugStreamFailed"),
        (m::ST_MOZ_LINUX_LIMITS, "MozLinuxLimits", "WriteLimitsFailed"),
        (m::ST_HANDLE_DATA, "HandleData", "WriteHandleDataStream"),
    ];
    let mut v = Vec::new();
    for (ty, name, needle) in table {
        if !d.has_stream(ty) && !soft_text.contains(needle) {
            v.push((format!("absent-stream-not-reported/{name}"), format!("stream {name} is absent from the dump but no {needle} soft error was reported: {}", &soft_text[..soft_text.len().min(300)])));
        }
    }
    v
}

/// The soft-error laws that hold for EVERY successful dump, whatever the target or environment: the
/// stream is present, is a JSON list, and names the step of every optional stream that is absent.
pub fn soft_error_laws(bytes: &[u8]) -> Vec<String> {
    let d = Dump::parse(bytes);
    let Some(soft) = d.raw_bytes(bytes, ST_MOZ_SOFT_ERRORS) else {
        return vec!["soft-error-stream-missing: the dump has no soft-error stream".into()];
    };
    match serde_json::from_slice::<Value>(soft) {
        Ok(Value::Array(a)) => {
            let text = Value::Array(a).to_string();
            absent_streams_unreported(&d, &text).into_iter().map(|(k, m)| format!("{k}: {m}")).collect()
        }
        Ok(_) => vec!["soft-errors-not-an-array: the soft-error stream is JSON but not a list".into()],
        Err(e) => vec![format!("soft-errors-not-json: the soft-error stream is not well-formed JSON: {e}")],
    }
}

/// Natural failures of the 'read linker debug data' step: the 14 chain shapes of the synthetic linker
/// window (C02 family D) — whatever the shape, the dump succeeds, the soft-error stream is a JSON list,
/// a missing linker stream is reported, and all other streams equal the baseline over the intact window.
fn run_linker_shape(shape: usize) -> Res {
    use crate::checks::c02::{linker_shape_image, make_host, window_opts};
    use crate::dump::dump_mem;
    let mut h = make_host();
    let o = window_opts(&h);
    let name = format!("linker data shape {shape}");
    let base = match dump_mem(h.b.p.pid, &o) {
        DumpResult::Ok(b) => b,
        other => return Res { name, fails: vec![("baseline-failed".into(), format!("{other:?}"))], soft_len: 0 },
    };
    let bd = Dump::parse(&base);
    let baseline = bd.normalized(&base, &NormOpts { mask_volatile: true });
    let mut fails = Vec::new();
    if !bd.has_stream(mdv_core::mdparse::ST_LINUX_DSO_DEBUG) {
        fails.push(("MACHINERY".into(), "the intact synthetic linker window does not yield a linker stream".into()));
    }
    let (img, what) = linker_shape_image(&h, shape);
    h.b.p.write(h.win.base, &img);
    h.b.p.quiesce();
    let (result, rec) = crate::dump::dump_recorded(h.b.p.pid, &o, 0, Vec::new(), crate::dest::Fault::None);
    let inj = Inj { name: format!("linker data: {what}"), opt: 9, allowed: vec!["dso".into(), "raw.LinuxDsoDebug".into(), "streams".into()], ..Default::default() };
    fails.extend(judge(&inj, &result, &baseline, true));
    if let DumpResult::Ok(img) = &result {
        if rec.data != *img {
            for (k, m) in judge(&inj, &DumpResult::Ok(rec.data.clone()), &baseline, true) {
                fails.push((format!("destination/{k}"), format!("(judging the bytes that reached the destination, which differ from the returned image) {m}")));
            }
        }
    }
    let soft_len = match &result {
        DumpResult::Ok(bytes) => Dump::parse(bytes).raw_bytes(bytes, ST_MOZ_SOFT_ERRORS).map(|s| s.len()).unwrap_or(0),
        _ => 0,
    };
    Res { name: inj.name, fails, soft_len }
}

/// One writer, six requests: soft failure + hard failure (destination error); clean; soft failure;
/// clean; hard failure only; clean.  The soft-error list of each successful request must describe
/// that request only.
fn run_reused_writer() -> Res {
    use crate::dump::{dump_with, make_writer};
    let name = "one writer: failing, clean, failing request".to_string();
    let mut shape = Shape::threads(3);
    shape.names = vec![None, Some(b"\xff\xfe".to_vec()), None];
    let mut b = build(&shape);
    let tid = b.p.threads[0].tid;
    let mut w = make_writer(b.p.pid, &DumpOpts::default());
    let mut fails = Vec::new();
    let mut soft_len = 0;
    // (name unreadable?, destination fails?)
    for (k, (bad, dest_fails)) in [(true, true), (false, false), (true, false), (false, false), (false, true), (false, false)].into_iter().enumerate() {
        b.p.set_name(tid, if bad { b"\xff\xfe" } else { b"fine" });
        b.p.quiesce();
        let mut c = crate::dest::RecDest::new(Vec::new(), 0, if dest_fails { crate::dest::Fault::ErrAt(4) } else { crate::dest::Fault::None });
        match dump_with(&mut w, &mut c) {
            DumpResult::Ok(bytes) => {
                if dest_fails {
                    fails.push(("MACHINERY".into(), "the request with a failing destination succeeded".into()));
                }
                for e in soft_error_laws(&bytes) {
                    fails.push((format!("reused-writer/request-{k}/{}", e.split(':').next().unwrap_or("law")), e));
                }
                let d = Dump::parse(&bytes);
                let text = d.raw_bytes(&bytes, ST_MOZ_SOFT_ERRORS).map(|s| String::from_utf8_lossy(s).into_owned()).unwrap_or_default();
                soft_len += text.len();
                let empty = serde_json::from_str::<Value>(&text).ok().and_then(|v| v.as_array().map(|a| a.is_empty())).unwrap_or(false);
                if bad && empty {
                    fails.push((format!("reused-writer/request-{k}/failure-not-reported"), "a thread name was unreadable but the soft-error list is empty".into()));
                }
                if !bad && !empty {
                    fails.push((format!("reused-writer/request-{k}/not-empty-without-failure"), format!("nothing failed in this request (request {k} on the same writer; an earlier request had a soft failure and then failed hard) but the soft-error list is {}", &text[..text.len().min(300)])));
                }
            }
            DumpResult::Err(_) if dest_fails => {}
            other => fails.push((format!("reused-writer/request-{k}/dump-failed"), format!("{other:?}"))),
        }
    }
    Res { name, fails, soft_len }
}

pub struct Res {
    name: String,
    fails: Vec<(String, String)>,
    soft_len: usize,
}

fn opts_for(inj: &Inj, ctx_on: bool, env: &crate::checks::c01::Env, pid: i32) -> DumpOpts {
    let mut o = DumpOpts::default();
    if ctx_on {
        o.crash = Some(CrashSpec { tid: pid, signo: 11, code: 1, addr: 0x1000, devs: vec![(DIM_RSP, env.main_stack.1 - 0x1800), (DIM_RIP, env.text.0 + 0x40)] });
    }
    match inj.opt {
        1 => o.stop_timeout_ms = Some(5),
        2 => o.direct_auxv = Some((env.auxv.0, 0x10, env.auxv.2, env.auxv.3)),
        3 => {
            o.skip_unref = true;
            o.principal = Some(0x10);
        }
        _ => {}
    }
    o
}

fn judge(inj: &Inj, result: &DumpResult, baseline: &Value, injected_keys_hit: bool) -> Vec<(String, String)> {
    let mut fails = Vec::new();
    let key = |s: &str| format!("{s}/{}", inj.name.split(" + ").next().unwrap_or(&inj.name).replace(|c: char| c.is_ascii_digit(), "#"));
    let bytes = match result {
        DumpResult::Ok(b) => b,
        DumpResult::Err(e) => {
            fails.push((key("dump-failed"), format!("[{}] the dump failed instead of reporting a soft error: {e}", inj.name)));
            return fails;
        }
        DumpResult::Panic(p) => {
            fails.push((key("panic"), format!("[{}] panic: {p}", inj.name)));
            return fails;
        }
    };
    let d = Dump::parse(bytes);
    let Some(soft) = d.raw_bytes(bytes, ST_MOZ_SOFT_ERRORS) else {
        fails.push((key("soft-error-stream-missing"), format!("[{}] no soft-error stream", inj.name)));
        return fails;
    };
    let parsed: Result<Value, _> = serde_json::from_slice(soft);
    let arr = match &parsed {
        Ok(Value::Array(a)) => a.clone(),
        Ok(other) => {
            fails.push((key("soft-errors-not-an-array"), format!("[{}] soft errors are JSON but not a list: {}", inj.name, &other.to_string()[..other.to_string().len().min(80)])));
            return fails;
        }
        Err(e) => {
            fails.push((key("soft-errors-not-json"), format!("[{}] soft-error stream is not well-formed JSON: {e}", inj.name)));
            return fails;
        }
    };
    let text = Value::Array(arr.clone()).to_string();
    if inj.expect.is_empty() && inj.plan.is_empty() && inj.failpoints == 0 && inj.opt == 0 {
        if !arr.is_empty() {
            fails.push(("not-empty-without-failure".into(), format!("nothing failed but the soft-error list is {}", &text[..text.len().min(300)])));
        }
    }
    if injected_keys_hit {
        for (needle, count) in &inj.expect {
            let got = text.matches(needle.as_str()).count();
            if got < *count {
                fails.push((key(&format!("failure-not-reported/{needle}")), format!("[{}] expected {count}x {needle:?} in the soft errors, found {got}: {}", inj.name, &text[..text.len().min(400)])));
            }
        }
    }
    for (k, m) in absent_streams_unreported(&d, &text) {
        fails.push((key(&k), format!("[{}] {m}", inj.name)));
    }
    for err in d.structural_errors() {
        fails.push((key("structure"), format!("[{}] {err}", inj.name)));
        break;
    }
    let norm = d.normalized(bytes, &NormOpts { mask_volatile: true });
    let mut baseline_owned = baseline.clone();
    if inj.allowed.iter().any(|a| a == "lost-threads") {
        let max_lost = inj.plan.iter().filter(|(k, _)| k.starts_with("attach:")).count();
        match drop_lost_threads(&baseline_owned, &norm, max_lost) {
            Ok(b2) => baseline_owned = b2,
            Err(m) => fails.push((key("thread-loss-not-confined"), format!("[{}] {m}", inj.name))),
        }
    }
    let baseline = &baseline_owned;
    let mut a = strip(&norm, &inj.allowed);
    let mut b = strip(baseline, &inj.allowed);
    if b.get("exception-dropped").is_some() {
        if let (Some(ao), Some(bo)) = (a.as_object_mut(), b.as_object_mut()) {
            ao.remove("exception");
            bo.remove("exception-dropped");
        }
    }
    if a != b {
        let which = a.as_object().and_then(|ao| ao.iter().find(|(k, v)| b.get(k.as_str()) != Some(v)).map(|(k, _)| k.clone())).unwrap_or_default();
        let sa = a.get(&which).map(|v| v.to_string()).unwrap_or_default();
        let sb = b.get(&which).map(|v| v.to_string()).unwrap_or_default();
        fails.push((key(&format!("other-stream-changed/{which}")), format!("[{}] part '{which}' of the dump differs from the baseline although the failed step does not feed it: {} vs baseline {}", inj.name, &sa[..sa.len().min(400)], &sb[..sb.len().min(400)])));
    }
    fails
}

fn run_inj(inj: &Inj, n: usize, ctx_on: bool) -> Res {
    let mut b = build(&Shape::threads(n));
    let env = env_of(&mut b);
    let o = opts_for(inj, ctx_on, &env, b.p.pid);
    // baseline on the same puppet with the same options but no injection (except pure option tweaks stay)
    let base_out = env_dump(&b.p, &EnvSpec { opts: opts_for(&Inj::default(), ctx_on, &env, b.p.pid), ..Default::default() }, HashMap::new(), None);
    let baseline = match &base_out.result {
        DumpResult::Ok(bytes) => Dump::parse(bytes).normalized(bytes, &NormOpts { mask_volatile: true }),
        other => {
            return Res { name: inj.name.clone(), fails: vec![("baseline-failed".into(), format!("{other:?}"))], soft_len: 0 };
        }
    };
    b.p.quiesce();
    // with a crash context the blamed (main) thread's registers come from the context, so the
    // writer does not open /proc/P/status for thread info and the stream copy is the first open
    let mut inj = inj.clone();
    if ctx_on {
        for (k, _) in inj.plan.iter_mut() {
            if k == "open:/proc/P/status#1" {
                *k = "open:/proc/P/status#0".into();
            }
        }
    }
    let inj = &inj;
    let out = env_dump(&b.p, &EnvSpec { plan: inj.plan.clone(), failpoints: inj.failpoints, dest_fault: None, opts: o }, HashMap::new(), None);
    // were all planned keys actually reached? (otherwise the injection did not happen: machinery)
    let hit = inj.plan.iter().filter(|(k, _)| !k.starts_with("open:/proc/P/stat#")).all(|(k, _)| out.trace.iter().any(|c| &c.key == k && c.deviated));
    let mut fails = judge(inj, &out.result, &baseline, hit);
    // what the caller finds at the destination must tell the same story as the returned image
    if let DumpResult::Ok(img) = &out.result {
        if out.dest.data != *img {
            let on_disk = DumpResult::Ok(out.dest.data.clone());
            for (k, m) in judge(inj, &on_disk, &baseline, hit) {
                fails.push((format!("destination/{k}"), format!("(judging the bytes that reached the destination, which differ from the returned image) {m}")));
            }
        }
    }
    if !hit {
        fails.push(("MACHINERY".into(), format!("[{}] a planned key was never reached", inj.name)));
    }
    let soft_len = match &out.result {
        DumpResult::Ok(bytes) => Dump::parse(bytes).raw_bytes(bytes, ST_MOZ_SOFT_ERRORS).map(|s| s.len()).unwrap_or(0),
        _ => 0,
    };
    Res { name: inj.name.clone(), fails, soft_len }
}

fn fixtures() -> (String, String) {
    let dir = "/verif/target/tmp";
    let _ = std::fs::create_dir_all(dir);
    let stat = format!("{dir}/stat_sleeping");
    // a syntactically valid stat line of a sleeping process
    let me = std::fs::read_to_string("/proc/self/stat").unwrap_or_default();
    // replace the state field (after the last ')') by S
    if let Some(i) = me.rfind(')') {
        let mut s = me.clone();
        if s.len() > i + 2 {
            s.replace_range(i + 2..i + 3, "S");
        }
        let _ = std::fs::write(&stat, s);
    }
    let auxv = format!("{dir}/auxv_truncated");
    let real = std::fs::read("/proc/self/auxv").unwrap_or_default();
    let _ = std::fs::write(&auxv, &real[..real.len().min(16 * 3 + 8)]); // three pairs and a half
    (stat, auxv)
}

pub fn run(ctx: &Ctx, rep: &mut Report) {
    rep.rule = "(a) all 32 subsets of the 5 fail points x N in {1,3} x crash context on/off; (b) every injectable natural failure (kill/open/opendir/attach answers, truncated auxv, unreadable program headers, unknown principal mapping) alone (quick) and in all compatible pairs (thorough), each compared with a baseline dump of the same puppet; nontrivial = runs with at least one injected failure".into();
    rep.assume("injected answers are world-consistent: a failed attach is not performed, detach/cont/SIGCONT are never faked");
    let (stat_fix, auxv_fix) = fixtures();
    if let Some(case) = &ctx.replay {
        let n = case["n"].as_u64().unwrap_or(3) as usize;
        let ctx_on = case["ctx"].as_bool().unwrap_or(false);
        let name = case["name"].as_str().unwrap_or("");
        if case.get("reused_writer").is_some() {
            let r = run_reused_writer();
            rep.evaluations += 1;
            for (k, m) in r.fails {
                rep.violation(&k, &m, case.clone());
            }
            return;
        }
        if case.get("family").is_some() {
            let Some(c) = crate::checks::c02::Case::from_json(case) else {
                rep.machinery("bad replay".into());
                return;
            };
            *crate::checks::c02::EXTRA_JUDGE.write().unwrap() = Some(soft_error_laws);
            let v = crate::checks::c02::run_standalone(&c);
            rep.evaluations += 1;
            for e in v.structure {
                let k = e.split(':').next().unwrap_or("law").to_string();
                rep.violation(&format!("hostile/{}/{k}", c.family()), &e, case.clone());
            }
            return;
        }
        if let Some(shape) = case.get("linker_shape").and_then(|v| v.as_u64()) {
            let r = run_linker_shape(shape as usize);
            rep.evaluations += 1;
            for (k, m) in r.fails {
                if k == "MACHINERY" {
                    rep.machinery(m);
                } else {
                    rep.violation(&k, &m, case.clone());
                }
            }
            return;
        }
        let all = injectables(n, &stat_fix, &auxv_fix);
        let mut target: Option<Inj> = None;
        if let Some(bits) = case.get("failpoint_subset").and_then(|b| b.as_u64()) {
            target = Some(subset_inj(bits as u8, n));
        } else if let Some((a, b)) = name.split_once(" + ") {
            if let (Some(x), Some(y)) = (all.iter().find(|i| i.name == a), all.iter().find(|i| i.name == b)) {
                target = combine(x, y);
            }
        } else {
            target = all.iter().find(|i| i.name == name).cloned().or_else(|| if name == "no failure" { Some(Inj { name: "no failure".into(), ..Default::default() }) } else { None });
        }
        match target {
            Some(inj) => {
                let r = run_inj(&inj, n, ctx_on);
                rep.evaluations += 1;
                for (k, m) in r.fails {
                    if k == "MACHINERY" {
                        rep.machinery(m);
                    } else {
                        rep.violation(&k, &m, case.clone());
                    }
                }
            }
            None => rep.machinery("unknown injection in replay".into()),
        }
        return;
    }
    // work list
    let mut items: Vec<(Inj, usize, bool, Value)> = Vec::new();
    for n in [3usize, 1] {
        for ctx_on in [false, true] {
            items.push((Inj { name: "no failure".into(), ..Default::default() }, n, ctx_on, json!({"name": "no failure", "n": n, "ctx": ctx_on})));
            for bits in 1u8..32 {
                items.push((subset_inj(bits, n), n, ctx_on, json!({"failpoint_subset": bits, "n": n, "ctx": ctx_on})));
            }
        }
        let inj = injectables(n, &stat_fix, &auxv_fix);
        for i in &inj {
            items.push((i.clone(), n, false, json!({"name": i.name, "n": n, "ctx": false})));
            if n == 3 {
                items.push((i.clone(), n, true, json!({"name": i.name, "n": n, "ctx": true})));
            }
        }
        if ctx.tier.is_thorough() && n == 3 {
            for (x, a) in inj.iter().enumerate() {
                for b in inj.iter().skip(x + 1) {
                    if let Some(c) = combine(a, b) {
                        items.push((c.clone(), n, false, json!({"name": c.name, "n": n, "ctx": false})));
                    }
                }
            }
        }
    }
    let results = par_map(&items, |_, (inj, n, c, _)| run_inj(inj, *n, *c));
    for ((inj, _, _, case), r) in items.iter().zip(results) {
        rep.evaluations += 1;
        if !inj.plan.is_empty() || inj.failpoints != 0 || inj.opt != 0 {
            rep.nontrivial += 1;
        }
        rep.outcome(mdv_core::fnv(format!("{}{}", r.name, r.soft_len).as_bytes()));
        if rep.samples.len() < 4 && inj.plan.len() == 1 {
            rep.sample(json!({"case": case, "plan": inj.plan.iter().map(|(k, a)| format!("{k} -> {a:?}")).collect::<Vec<_>>(), "expected_in_soft_errors": inj.expect.iter().map(|e| e.0.clone()).collect::<Vec<_>>()}));
        }
        for (k, m) in r.fails {
            if k == "MACHINERY" {
                rep.machinery(m);
            } else {
                rep.violation(&k, &m, case.clone());
            }
        }
    }
    // hostile-world targets and environments (C02's case list): every dump that succeeds obeys the soft-error laws
    *crate::checks::c02::EXTRA_JUDGE.write().unwrap() = Some(soft_error_laws);
    let hostile = if crate::checks::universal::IN_CROSS.load(std::sync::atomic::Ordering::SeqCst) { Vec::new() } else { crate::checks::c02::run_real_cases(ctx.tier.is_thorough()) };
    let mut hok = 0u64;
    for (c, v) in hostile {
        rep.evaluations += 1;
        if v.kind == 0 {
            hok += 1;
            rep.nontrivial += 1;
        }
        for e in v.structure {
            let k = e.split(':').next().unwrap_or("law").to_string();
            rep.violation(&format!("hostile/{}/{k}", c.family()), &e, c.to_json());
        }
    }
    rep.set("hostile_world_dumps_judged", json!(hok));
    let shapes: Vec<usize> = (0..crate::checks::c02::N_LINKER_SHAPES).collect();
    let lres = par_map(&shapes, |_, s| run_linker_shape(*s));
    for (s, r) in shapes.iter().zip(lres) {
        rep.evaluations += 1;
        rep.nontrivial += 1;
        rep.outcome(mdv_core::fnv(format!("{}{}", r.name, r.soft_len).as_bytes()));
        for (k, m) in r.fails {
            if k == "MACHINERY" {
                rep.machinery(m);
            } else {
                rep.violation(&k, &m, json!({"linker_shape": s}));
            }
        }
    }
    rep.set("linker_data_shapes", json!(shapes.len()));
    let r = run_reused_writer();
    rep.evaluations += 1;
    rep.nontrivial += 1;
    for (k, m) in r.fails {
        if k == "MACHINERY" {
            rep.machinery(m);
        } else {
            rep.violation(&k, &m, json!({"reused_writer": true}));
        }
    }
    rep.set("injectables", json!(injectables(3, &stat_fix, &auxv_fix).len()));
    rep.set("runs", json!(items.len()));
    rep.states = rep.evaluations;
    rep.transitions = rep.evaluations;
    rep.traces = rep.evaluations;
    rep.exhaustive = true;
}

fn subset_inj(bits: u8, n: usize) -> Inj {
    let mut expect = Vec::new();
    let mut allowed: Vec<String> = Vec::new();
    let names: Vec<&str> = FAILPOINTS.iter().enumerate().filter(|(i, _)| bits & (1 << i) != 0).map(|(_, f)| f.0).collect();
    if bits & 1 != 0 {
        expect.push(e("StopProcessFailed"));
    }
    if bits & 2 != 0 {
        expect.push(e("FillMissingAuxvInfoErrors"));
    }
    if bits & 4 != 0 {
        expect.push(("ReadThreadNameFailed".to_string(), n));
        allowed.push("thread_names".into());
    }
    if bits & 8 != 0 {
        expect.push(e("1234"));
    }
    if bits & 16 != 0 {
        expect.push(e("WriteCpuInformationFailed"));
        allowed.push("sysinfo.cpu".into());
    }
    Inj { name: format!("fail points {{{}}}", names.join(",")), failpoints: bits, expect, allowed, ..Default::default() }
}
