//! C07 — the memory list is faithful and complete.
//!
//! LAT on real dumps: application regions (count 0..3 x alignment 0..7 x lengths {1,7,8,9,4095,
//! 4096,4097,65536,1 MiB} x placement {interior, at mapping start, ending at the mapping end before
//! an unmapped page / a PROT_NONE page}, overlapping and duplicate regions) x crash instruction
//! pointer positions around the edges of 1- and 3-page mappings (r-x, --x, ---p) x thread count.
//! Oracle: address-derived pattern / the target's memory, read back through /proc/<pid>/mem.

use crate::dump::{CrashSpec, DumpOpts, DumpResult, DIM_RIP, DIM_RSP};
use crate::puppet::{Kind, Puppet};
use crate::shapes::par_map;
use crate::Ctx;
use mdv_core::mdparse::Dump;
use mdv_core::{json, Report, Value};

const PAGE: u64 = 4096;
const R1_PAGES: u64 = 300;

pub struct Target {
    p: Puppet,
    r1: u64,
    r2: u64,
    x: Vec<(u64, u64, &'static str)>, // (start, pages, prot) of the IP mappings
    main_sp_hi: u64,
}

fn make_target(n: usize) -> Target {
    let mut p = Puppet::spawn();
    for i in 1..n {
        if n >= 24 && i >= 18 {
            // spin threads on dedicated stacks with the stack pointer at chosen in-page offsets
            // (so that size-limited stacks start in every quarter of a page)
            let region = p.pattern(3, "hole", "rw");
            let t = p.mkthread(Kind::Spin);
            let off = [8u64, 0x800, 0xb28, 0xff8, 0x7f8, 0x808][i % 6];
            p.set_gpr(t, crate::puppet::RSP, region + PAGE + off);
            p.start(t);
        } else {
            p.add_thread(Kind::Block);
        }
    }
    let r1 = p.pattern(R1_PAGES as usize, "hole", "rw");
    let r2 = p.pattern(4, "protnone", "rw");
    let mut x = Vec::new();
    for (pages, prot) in [(1u64, "rx"), (3, "rx"), (1, "x"), (1, "-")] {
        let a = p.pattern(pages as usize, "hole", prot);
        x.push((a, pages, prot));
    }
    // a code region BELOW the main executable (JIT / MAP_32BIT style): the writer moves the entry
    // module to the front of its mapping list, so the list it searches is not sorted by address
    if let Ok(r) = p.cmd("pattern_at 0x20000000 2 rx") {
        x.push((u64::from_str_radix(r[0].trim_start_matches("0x"), 16).unwrap_or(0), 2, "rx"));
    }
    p.quiesce();
    let maps = mdv_core::mapsref::parse_maps(&p.maps_text()).unwrap_or_default();
    let main_sp_hi = maps.iter().find(|l| l.name.as_deref() == Some(b"[stack]")).map(|l| l.end).unwrap_or(0);
    Target { p, r1, r2, x, main_sp_hi }
}

#[derive(Clone, Debug)]
pub struct Case {
    n: usize,
    /// (region id 1|2, offset from region start or negative = from region end, length)
    app: Vec<(u8, i64, u64)>,
    /// (ip mapping index, offset from mapping start; may be -1 or == size)
    ip: Option<(usize, i64)>,
    /// dump with a size limit that is certainly exceeded
    limit: bool,
    /// remote-memory strategy forced for the whole dump: 0 default (vectored read), 1 /proc/<pid>/mem, 2 ptrace
    strategy: u8,
}

impl Case {
    fn to_json(&self) -> Value {
        json!({"n": self.n, "limit": self.limit, "strategy": self.strategy, "app": self.app.iter().map(|(r, o, l)| json!([r, o, l])).collect::<Vec<_>>(), "ip": self.ip.map(|(m, o)| json!([m, o]))})
    }
    fn from_json(v: &Value) -> Option<Case> {
        Some(Case {
            n: v.get("n")?.as_u64()? as usize,
            app: v.get("app")?.as_array()?.iter().filter_map(|a| Some((a.get(0)?.as_u64()? as u8, a.get(1)?.as_i64()?, a.get(2)?.as_u64()?))).collect(),
            ip: v.get("ip").and_then(|i| Some((i.get(0)?.as_u64()? as usize, i.get(1)?.as_i64()?))),
            limit: v.get("limit").and_then(|l| l.as_bool()).unwrap_or(false),
            strategy: v.get("strategy").and_then(|l| l.as_u64()).unwrap_or(0) as u8,
        })
    }
}

fn resolve(t: &Target, (r, off, len): (u8, i64, u64)) -> (u64, u64) {
    let (start, pages) = if r == 1 { (t.r1, R1_PAGES) } else { (t.r2, 4) };
    let end = start + pages * PAGE;
    if off >= 0 {
        (start + off as u64, len)
    } else {
        // negative: region ends |off|-1 bytes before the mapping end  (-1 = ends exactly at the end)
        (end - len - ((-off - 1) as u64), len)
    }
}

pub fn run_case(t: &mut Target, c: &Case) -> (Vec<(String, String)>, bool) {
    let mut fails = Vec::new();
    let mut o = DumpOpts::default();
    if c.limit {
        o.size_limit = Some(1);
    }
    let regions: Vec<(u64, u64)> = c.app.iter().map(|a| resolve(t, *a)).collect();
    o.app_memory = regions.iter().map(|(a, l)| (*a as usize, *l as usize)).collect();
    let mut window: Option<(u64, u64)> = None;
    if let Some((mi, _)) = c.ip {
        if mi >= t.x.len() {
            return (fails, false); // the fixed low address was not available in this target
        }
    }
    if let Some((mi, off)) = c.ip {
        let (ms, pages, _) = t.x[mi];
        let me = ms + pages * PAGE;
        let ip = (ms as i64 + off) as u64;
        o.crash = Some(CrashSpec { tid: t.p.pid, signo: 11, code: 1, addr: ip, devs: vec![(DIM_RSP, t.main_sp_hi - 0x1800), (DIM_RIP, ip)] });
        if ip >= ms && ip < me {
            window = Some((ms.max(ip.saturating_sub(128)), me.min(ip + 128)));
        } else if ip < ms && ip >= ms - PAGE {
            // the PROT_NONE guard page that precedes every pattern region is a mapping too
            window = Some((ip - 128, ms.min(ip + 128)));
        }
    }
    let out = crate::envrun::env_dump(&t.p, &crate::envrun::EnvSpec { opts: o.clone(), plan: crate::envrun::strategy_plan(c.strategy), ..Default::default() }, std::collections::HashMap::new(), None);
    if c.strategy == 1 && !out.trace.iter().any(|x| x.key.starts_with("pread#")) || c.strategy == 2 && !out.trace.iter().any(|x| x.key.starts_with("peek#")) {
        fails.push(("MACHINERY".into(), format!("strategy {} was requested but never used", c.strategy)));
    }
    let bytes = match out.result {
        DumpResult::Ok(b) => b,
        DumpResult::Err(_) => return (fails, false), // e.g. window in an unreadable mapping: C02's business
        DumpResult::Panic(p) => {
            fails.push(("panic".into(), p));
            return (fails, false);
        }
    };
    let d = Dump::parse(&bytes);
    // 1. every region reproduces the target's memory
    for (i, m) in d.memory.iter().enumerate() {
        let got = match d.loc_bytes(&bytes, &m.loc) {
            Some(g) => g,
            None => {
                fails.push(("region-out-of-bounds".into(), format!("memory region #{i} out of bounds")));
                continue;
            }
        };
        let want = t.p.read(m.start, got.len());
        if want.len() != got.len() {
            fails.push(("region-not-readable-in-target".into(), format!("memory region #{i} [{:#x}, +{}) cannot be read back from the target", m.start, got.len())));
        } else if want != got {
            let first = got.iter().zip(want.iter()).position(|(a, b)| a != b).unwrap();
            fails.push(("region-bytes-differ".into(), format!("memory region #{i} [{:#x}, +{}): byte {first} is {:#x}, the target has {:#x}", m.start, got.len(), got[first], want[first])));
        }
    }
    // 2. every requested app region appears with exactly its address and length
    let mut avail: Vec<(u64, u64)> = d.memory.iter().map(|m| (m.start, m.loc.size as u64)).collect();
    for (a, l) in &regions {
        match avail.iter().position(|x| x == &(*a, *l)) {
            Some(i) => {
                avail.remove(i);
            }
            None => fails.push(("app-region-missing-or-altered".into(), format!("requested region [{a:#x}, +{l}) is not in the memory list with exactly that address and length"))),
        }
    }
    // 3. every non-empty thread stack appears
    for th in &d.threads {
        if th.stack.size > 0 && !d.memory.iter().any(|m| m.start == th.stack_start && m.loc.size == th.stack.size && m.loc.rva == th.stack.rva) {
            fails.push(("stack-not-in-memory-list".into(), format!("stack of thread {} is not in the memory list", th.tid)));
        }
    }
    // 4. instruction-pointer window
    if let Some((ws, we)) = window {
        match avail.iter().position(|x| x == &(ws, we - ws)) {
            Some(_) => {}
            None => {
                let near: Vec<String> = avail.iter().filter(|(a, l)| *a < we + 512 && a + l + 512 > ws).map(|(a, l)| format!("[{a:#x}, +{l})")).collect();
                fails.push(("ip-window-wrong".into(), format!("expected the window [{ws:#x}, +{}) around the crash instruction pointer, the memory list has {near:?} there", we - ws)));
            }
        }
    } else if c.ip.is_some() {
        // ip in no mapping: no window of any size may sit around it
        let ip = (t.x[c.ip.unwrap().0].0 as i64 + c.ip.unwrap().1) as u64;
        if avail.iter().any(|(a, l)| *a <= ip && ip < a + l && *l <= 256 && !d.threads.iter().any(|th| th.stack_start == *a)) {
            fails.push(("ip-window-for-unmapped-ip".into(), format!("a window was captured around instruction pointer {ip:#x} which lies in no mapping")));
        }
    }
    (fails, true)
}

fn cases_for(n: usize, thorough: bool) -> Vec<Case> {
    let mut v = Vec::new();
    v.push(Case { n, app: vec![], ip: None, limit: false, strategy: 0 });
    let lens: [u64; 9] = [1, 7, 8, 9, 4095, 4096, 4097, 65536, 1 << 20];
    // single region: placements x alignment x length
    for &l in &lens {
        for a in 0..8i64 {
            if !thorough && n != 1 && a % 3 != 0 {
                continue;
            }
            v.push(Case { n, app: vec![(1, 5 * 4096 + a, l)], ip: None, limit: false, strategy: 0 }); // interior
            v.push(Case { n, app: vec![(1, a, l)], ip: None, limit: false, strategy: 0 }); // at/near mapping start
            v.push(Case { n, app: vec![(1, -1 - a, l)], ip: None, limit: false, strategy: 0 }); // ending at/near the mapping end (unmapped page after)
            if l <= 4 * 4096 {
                v.push(Case { n, app: vec![(2, -1 - a, l)], ip: None, limit: false, strategy: 0 }); // ending at/near the end before a PROT_NONE page
            }
        }
    }
    // two and three regions: overlapping, duplicate, adjacent
    for &l in &[8u64, 4097] {
        v.push(Case { n, app: vec![(1, 100, l), (1, 100, l)], ip: None, limit: false, strategy: 0 });
        v.push(Case { n, app: vec![(1, 100, l), (1, 104, l)], ip: None, limit: false, strategy: 0 });
        v.push(Case { n, app: vec![(1, 100, l), (1, 100 + l as i64, l), (2, 0, 9)], ip: None, limit: false, strategy: 0 });
        v.push(Case { n, app: vec![(2, -1, l.min(4096)), (1, -1, l), (1, 0, 1)], ip: None, limit: false, strategy: 0 });
    }
    // size-limited dumps (only meaningful with more than 20 threads)
    if n >= 24 {
        for c in v.clone().iter().take(12) {
            v.push(Case { limit: true, ..c.clone() });
            v.push(Case { limit: true, strategy: 2, ..c.clone() });
        }
    }
    // every case so far again under the two fallback strategies (lengths up to one page for ptrace: it is word-by-word)
    let base: Vec<Case> = v.clone();
    for c in &base {
        if c.strategy != 0 {
            continue;
        }
        let small = c.app.iter().all(|a| a.2 <= 4097);
        if thorough || c.app.iter().all(|a| a.1.rem_euclid(3) == 0) {
            v.push(Case { strategy: 1, ..c.clone() });
            if small {
                v.push(Case { strategy: 2, ..c.clone() });
            }
        }
    }
    // crash instruction pointer around mapping edges
    for mi in 0..5usize {
        let size = if mi == 1 { 3 * 4096i64 } else if mi == 4 { 2 * 4096 } else { 4096 };
        for off in [0i64, 1, 127, 128, 129, size / 2, size - 129, size - 128, size - 127, size - 1, size, -1] {
            v.push(Case { n, app: vec![], ip: Some((mi, off)), limit: false, strategy: 0 });
            if off == 127 {
                v.push(Case { n, app: vec![(1, 7, 9)], ip: Some((mi, off)), limit: false, strategy: 0 });
            }
        }
    }
    v
}

pub fn run(ctx: &Ctx, rep: &mut Report) {
    rep.rule = "application regions: each under the default vectored read and (subset quick / all thorough) forced onto /proc/<pid>/mem and word-by-word ptrace through wildcard libc plans; {1 region: 4 placements x alignment 0..7 x 9 lengths; 2-3 regions: duplicate / overlapping / adjacent / across both regions} and crash instruction pointers at 12 offsets around the edges of five mappings (1 page r-x, 3 pages r-x, --x, ---p, 2 pages r-x at 0x20000000 below the executable), for thread counts {1, 3, 24 (with spin threads at chosen stack-pointer offsets and a size limit)}; nontrivial = successful dumps with at least one app region or an ip window".into();
    if let Some(case) = &ctx.replay {
        let Some(c) = Case::from_json(case) else {
            rep.machinery("bad replay".into());
            return;
        };
        let mut t = make_target(c.n);
        rep.evaluations += 1;
        for (k, m) in run_case(&mut t, &c).0 {
            rep.violation(&k, &m, case.clone());
        }
        return;
    }
    let mut chunks: Vec<Vec<Case>> = Vec::new();
    for n in [1usize, 3, 24] {
        let cs = cases_for(n, ctx.tier.is_thorough());
        for part in cs.chunks(cs.len().div_ceil(6)) {
            chunks.push(part.to_vec());
        }
    }
    let results = par_map(&chunks, |_, chunk| {
        let mut t = make_target(chunk[0].n);
        let mut out = Vec::new();
        for c in chunk {
            t.p.quiesce();
            let (f, ok) = run_case(&mut t, c);
            out.push((c.clone(), f, ok));
        }
        out
    });
    let mut ok_n = 0;
    let mut err_n = 0;
    for chunk in results {
        for (c, fails, ok) in chunk {
            rep.evaluations += 1;
            if ok {
                ok_n += 1;
                if !c.app.is_empty() || c.ip.is_some() {
                    rep.nontrivial += 1;
                }
            } else {
                err_n += 1;
            }
            rep.outcome(mdv_core::fnv(format!("{}{}{:?}", ok, c.app.len(), c.ip.map(|i| i.1)).as_bytes()));
            if rep.samples.len() < 4 && c.app.len() >= 2 {
                rep.sample(c.to_json());
            }
            for (k, m) in fails {
                if k == "MACHINERY" {
                    rep.machinery(m);
                } else {
                    rep.violation(&k, &m, c.to_json());
                }
            }
        }
    }
    rep.set("dumps", json!({"succeeded": ok_n, "returned_error": err_n}));
    if ok_n == 0 {
        rep.machinery("no dump succeeded".into());
    }
    rep.states = rep.evaluations;
    rep.transitions = rep.evaluations;
    rep.traces = ok_n;
    rep.exhaustive = true;
}
