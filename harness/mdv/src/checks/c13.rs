//! C13 — mapping aggregation preserves the address-space picture.
//!
//! SEQ over map texts: every well-formed memory map of up to `depth` lines over a pruned line
//! alphabet, crossed with every vDSO address choice, is rendered as /proc/<pid>/maps text, parsed
//! by the real procfs reader and aggregated by the real `MappingInfo::aggregate`. The oracle
//! (mdv_core::mapsref) encodes only the statement's laws.

use crate::checks::guarded;
use crate::Ctx;
use mdv_core::mapsref::{check_aggregation, parse_maps, Line, OutMapping};
use mdv_core::{json, Report, Value};
use minidump_writer::maps_reader::MappingInfo;
use procfs_core::process::MemoryMaps;
use procfs_core::FromRead;
use std::os::unix::ffi::OsStrExt;

#[derive(Clone, Copy, Debug, PartialEq, Eq)]
struct Letter {
    gap: u8,    // pages of unmapped space before the line
    size: u8,   // pages
    perms: u8,  // index into PERMS
    off: u8,    // 0 = 0, 1 = 0x1000, 2 = address where the previous line ended
    name: u8,   // index into NAMES
}

const PERMS: [&str; 5] = ["r-xp", "r--p", "rw-p", "---p", "r--s"];
const NAMES: [Option<&str>; 7] = [None, Some("/lib/a.so"), Some("/lib/b.so"), Some("/lib/a.so (deleted)"), Some("[heap]"), Some("[vdso]"), Some("/x/with space")];
const BASE: u64 = 0x7f00_0000_0000;
const PAGE: u64 = 0x1000;

fn alphabet(level: u8) -> Vec<Letter> {
    // level 0 = full pruned alphabet, 1 = medium, 2 = small
    let mut shapes: Vec<(u8, u8, u8)> = Vec::new(); // perms, off, name
    // anonymous
    for p in [3u8, 2, 0] {
        shapes.push((p, 0, 0));
    }
    // a.so
    for p in [0u8, 1, 2, 3] {
        for o in [0u8, 1, 2] {
            shapes.push((p, o, 1));
        }
    }
    if level <= 1 {
        for p in [0u8, 1] {
            for o in [0u8, 1] {
                shapes.push((p, o, 2));
            }
        }
        shapes.push((2, 0, 4)); // [heap]
        shapes.push((0, 0, 5)); // [vdso]
    }
    if level == 0 {
        for p in [0u8, 2] {
            for o in [0u8, 1] {
                shapes.push((p, o, 3));
            }
        }
        shapes.push((4, 0, 6));
        shapes.push((0, 0, 6));
    }
    if level == 2 {
        // small: the shapes every merge rule needs
        shapes = vec![(3, 0, 0), (2, 0, 0), (0, 0, 1), (2, 1, 1), (1, 2, 1), (3, 0, 1), (0, 0, 2), (0, 0, 5)];
    }
    let mut v = Vec::new();
    for gap in [0u8, 1] {
        for (p, o, n) in &shapes {
            v.push(Letter { gap, size: 1, perms: *p, off: *o, name: *n });
        }
        if level <= 1 {
            v.push(Letter { gap, size: 2, perms: 0, off: 0, name: 1 });
        }
    }
    v
}

fn build_lines(seq: &[Letter]) -> Vec<Line> {
    let mut out = Vec::new();
    let mut cur = BASE;
    for l in seq {
        let start = cur + l.gap as u64 * PAGE;
        let end = start + l.size as u64 * PAGE;
        let offset = match l.off {
            0 => 0,
            1 => 0x1000,
            _ => cur, // "offset == address where the previous line ended" (Breakpad's reserved-range test)
        };
        let name = NAMES[l.name as usize];
        out.push(Line {
            start,
            end,
            perms: PERMS[l.perms as usize].as_bytes().try_into().unwrap(),
            offset,
            dev: if name.map(|n| n.starts_with('/')).unwrap_or(false) { "08:01".into() } else { "00:00".into() },
            inode: if name.map(|n| n.starts_with('/')).unwrap_or(false) { 1234 } else { 0 },
            name: name.map(|n| n.as_bytes().to_vec()),
        });
        cur = end;
    }
    out
}

fn render(lines: &[Line]) -> String {
    let mut s = String::new();
    for l in lines {
        s.push_str(&l.text());
        s.push('\n');
    }
    s
}

/// Run the real parser + aggregator. Ok(None) = the subject returned an error (allowed: nothing to check).
fn subject(text: &[u8], gate: Option<u64>) -> Result<Option<Vec<OutMapping>>, String> {
    guarded(|| {
        let maps = match MemoryMaps::from_read(text) {
            Ok(m) => m,
            Err(_) => return None,
        };
        match MappingInfo::aggregate(maps, gate) {
            Ok(v) => Some(
                v.iter()
                    .map(|m| OutMapping { start: m.start_address as u64, size: m.size as u64, name: m.name.as_ref().map(|n| n.as_bytes().to_vec()) })
                    .collect(),
            ),
            Err(_) => None,
        }
    })
}

struct Acc {
    evals: u64,
    maps: u64,
    merged_cases: u64,
    gate_named: u64,
    errors: u64,
    outcomes: std::collections::HashSet<u64>,
    fails: Vec<(String, String, Value)>,
    sample: Option<Value>,
}

fn check_one(lines: &[Line], gate: Option<u64>, acc: &mut Acc, origin: &str) {
    let text = render(lines);
    acc.evals += 1;
    match subject(text.as_bytes(), gate) {
        Err(p) => {
            if acc.fails.len() < 30 {
                acc.fails.push(("panic".into(), format!("aggregate panicked: {p}"), json!({"maps": text, "gate": gate})));
            }
        }
        Ok(None) => acc.errors += 1,
        Ok(Some(outs)) => {
            if outs.len() < lines.len() {
                acc.merged_cases += 1;
            }
            if outs.iter().any(|o| o.name.as_deref() == Some(mdv_core::mapsref::LINUX_GATE)) {
                acc.gate_named += 1;
            }
            // outcome signature: which lines got merged with their predecessor + gate naming
            let mut sig = Vec::new();
            for o in &outs {
                sig.extend_from_slice(&(o.start - lines[0].start).to_le_bytes());
                sig.extend_from_slice(&o.size.to_le_bytes());
                sig.push((o.name.as_deref() == Some(mdv_core::mapsref::LINUX_GATE)) as u8);
            }
            if acc.outcomes.len() < 200_000 {
                acc.outcomes.insert(mdv_core::fnv(&sig));
            }
            if acc.sample.is_none() && outs.len() + 1 < lines.len() {
                acc.sample = Some(json!({"maps": text, "gate": gate, "derived": outs.iter().map(|o| json!([format!("{:#x}", o.start), o.size, o.name.as_ref().map(|n| String::from_utf8_lossy(n).into_owned())])).collect::<Vec<_>>() }));
            }
            if let Some((key, msg)) = check_aggregation(lines, gate, &outs) {
                if acc.fails.len() < 30 {
                    acc.fails.push((format!("{origin}/{key}"), msg, json!({"maps": text, "gate": gate})));
                }
            }
        }
    }
}

fn gates_for(lines: &[Line]) -> Vec<Option<u64>> {
    let mut g = vec![None];
    for l in lines {
        g.push(Some(l.start));
    }
    // inside a line (not at its start)
    if let Some(l) = lines.iter().find(|l| l.end - l.start >= 2 * PAGE) {
        g.push(Some(l.start + PAGE));
    } else if let Some(l) = lines.last() {
        g.push(Some(l.start + 0x800));
    }
    g
}

fn explore(alpha: &[Letter], depth: usize, rep: &mut Report, label: &str) {
    let nthreads = std::thread::available_parallelism().map(|n| n.get()).unwrap_or(4).min(16);
    let mut accs: Vec<Acc> = Vec::new();
    std::thread::scope(|s| {
        let handles: Vec<_> = (0..nthreads)
            .map(|w| {
                s.spawn(move || {
                    let mut acc = Acc { evals: 0, maps: 0, merged_cases: 0, gate_named: 0, errors: 0, outcomes: Default::default(), fails: vec![], sample: None };
                    let mut seq: Vec<Letter> = Vec::new();
                    fn rec(alpha: &[Letter], depth: usize, seq: &mut Vec<Letter>, acc: &mut Acc, w: usize, nthreads: usize) {
                        if !seq.is_empty() {
                            let lines = build_lines(seq);
                            acc.maps += 1;
                            for g in gates_for(&lines) {
                                check_one(&lines, g, acc, "synthetic");
                            }
                        }
                        if seq.len() == depth {
                            return;
                        }
                        for (i, l) in alpha.iter().enumerate() {
                            if seq.is_empty() && i % nthreads != w {
                                continue;
                            }
                            // the first line's gap is irrelevant: only gap 0 there
                            if seq.is_empty() && l.gap != 0 {
                                continue;
                            }
                            // offset class 2 needs a predecessor
                            if seq.is_empty() && l.off == 2 {
                                continue;
                            }
                            seq.push(*l);
                            rec(alpha, depth, seq, acc, w, nthreads);
                            seq.pop();
                        }
                    }
                    rec(alpha, depth, &mut seq, &mut acc, w, nthreads);
                    acc
                })
            })
            .collect();
        for h in handles {
            accs.push(h.join().expect("thread"));
        }
    });
    let mut maps = 0;
    let mut evals = 0;
    for acc in accs {
        maps += acc.maps;
        evals += acc.evals;
        rep.nontrivial += acc.merged_cases;
        rep.count_n("maps_with_a_merge", acc.merged_cases);
        rep.count_n("maps_with_gate_named", acc.gate_named);
        rep.count_n("subject_returned_error", acc.errors);
        for o in acc.outcomes {
            rep.outcome(o);
        }
        if let Some(s) = acc.sample {
            rep.sample(s);
        }
        for (k, m, c) in acc.fails {
            rep.violation(&k, &m, c);
        }
    }
    rep.states += maps;
    rep.transitions += maps; // each map is reached by appending one line to its prefix
    rep.evaluations += evals;
    rep.traces += evals;
    rep.set(&format!("seq_{label}"), json!({"alphabet": alpha.len(), "max_lines": depth, "maps": maps, "map_x_gate_evaluations": evals}));
}

fn live_processes(rep: &mut Report) {
    let mut acc = Acc { evals: 0, maps: 0, merged_cases: 0, gate_named: 0, errors: 0, outcomes: Default::default(), fails: vec![], sample: None };
    let mut n = 0;
    if let Ok(rd) = std::fs::read_dir("/proc") {
        let mut pids: Vec<u32> = rd.filter_map(|e| e.ok()).filter_map(|e| e.file_name().to_str().and_then(|s| s.parse().ok())).collect();
        pids.sort();
        for pid in pids {
            let Ok(text) = std::fs::read(format!("/proc/{pid}/maps")) else { continue };
            if text.is_empty() {
                continue;
            }
            let Ok(lines) = parse_maps(&text) else {
                rep.machinery(format!("own maps parser failed on /proc/{pid}/maps"));
                continue;
            };
            n += 1;
            let vdso = lines.iter().find(|l| l.name.as_deref() == Some(b"[vdso]")).map(|l| l.start);
            // feed the *original* text (not our rendering) to the subject
            for gate in [None, vdso] {
                acc.evals += 1;
                match subject(&text, gate) {
                    Err(p) => acc.fails.push(("live/panic".into(), format!("aggregate panicked on /proc/{pid}/maps: {p}"), json!({"maps": String::from_utf8_lossy(&text), "gate": gate}))),
                    Ok(None) => acc.errors += 1,
                    Ok(Some(outs)) => {
                        if outs.len() < lines.len() {
                            acc.merged_cases += 1;
                        }
                        if let Some((key, msg)) = check_aggregation(&lines, gate, &outs) {
                            acc.fails.push((format!("live/{key}"), format!("/proc/{pid}/maps: {msg}"), json!({"maps": String::from_utf8_lossy(&text), "gate": gate})));
                        }
                    }
                }
            }
        }
    }
    rep.evaluations += acc.evals;
    rep.set("live_process_maps", json!({"processes": n, "evaluations": acc.evals, "with_merge": acc.merged_cases}));
    for (k, m, c) in acc.fails {
        rep.violation(&k, &m, c);
    }
}

pub fn run(ctx: &Ctx, rep: &mut Report) {
    rep.rule = "SEQ over map texts: all maps of <= depth lines (quick: 3 over the full 56-letter alphabet, 4 over 44 letters, 5 over 16; thorough: 4 over the full alphabet, 6 over 16 letters) over the pruned line alphabet (gap x size x perms x offset-class x name), each x every vDSO address (none, start of each line, inside a line), through the real procfs parser + MappingInfo::aggregate; plus /proc/<pid>/maps of every live process. nontrivial = maps in which at least one merge happened".into();
    rep.assume("procfs-core's maps parser is part of the path under test (the crate uses it); the oracle uses its own line parser");
    if let Some(case) = &ctx.replay {
        let text = case.get("maps").and_then(|m| m.as_str()).unwrap_or("").to_string();
        let gate = case.get("gate").and_then(|g| g.as_u64());
        match parse_maps(text.as_bytes()) {
            Ok(lines) => {
                rep.evaluations += 1;
                match subject(text.as_bytes(), gate) {
                    Err(p) => {
                        rep.violation("panic", &format!("aggregate panicked: {p}"), case.clone());
                    }
                    Ok(None) => {}
                    Ok(Some(outs)) => {
                        for o in &outs {
                            eprintln!("derived: [{:#x}, +{:#x}) {:?}", o.start, o.size, o.name.as_ref().map(|n| String::from_utf8_lossy(n).into_owned()));
                        }
                        if let Some((k, m)) = check_aggregation(&lines, gate, &outs) {
                            rep.violation(&format!("replay/{k}"), &m, case.clone());
                        }
                    }
                }
            }
            Err(e) => rep.machinery(format!("bad replay maps: {e}")),
        }
        return;
    }
    let full = alphabet(0);
    let medium = alphabet(1);
    let small = alphabet(2);
    if ctx.tier.is_thorough() {
        explore(&full, 4, rep, "full");
        explore(&small, 6, rep, "small");
    } else {
        explore(&full, 3, rep, "full");
        explore(&medium, 4, rep, "medium");
        explore(&small, 5, rep, "small");
    }
    live_processes(rep);
    rep.exhaustive = true;
}
