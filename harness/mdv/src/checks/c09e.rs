//! C09 end-to-end part (whole dumps into positioned destinations) — needs the puppet.
use crate::Ctx;
use mdv_core::{Report, Value};
pub fn run(_ctx: &Ctx, _rep: &mut Report) {}
pub fn replay(_case: &Value, rep: &mut Report) {
    rep.machinery("end-to-end C09 replay not available yet".into());
}
