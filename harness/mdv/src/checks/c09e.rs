//! C09 end-to-end part: whole dumps into destinations positioned at different offsets with
//! pre-existing content; successful and aborted (hard error, destination fault at every call).

use crate::checks::c01::{env_of, opts_for, shape_n3};
use crate::dest::{DestOp, Fault};
use crate::dump::{dump_recorded, dump_recorded_at, DumpOpts, DumpResult};
use crate::shapes::{build, par_map, Shape};
use crate::Ctx;
use mdv_core::{json, Report, Value};

fn pre_bytes(kind: usize, start: u64) -> Vec<u8> {
    match kind {
        0 => vec![],
        1 => (0..start).map(|i| 0xD0 | (i as u8 & 7)).collect(),
        _ => (0..start + 400_000).map(|i| 0xD0 | (i as u8 & 7)).collect(), // longer than any image: the tail must survive
    }
}

fn check(start: u64, pre: &[u8], r: &DumpResult, d: &crate::dest::RecDest) -> Option<(String, String)> {
    let s = start as usize;
    if let Some((at, n)) = d.stray.first() {
        return Some(("write-outside-the-dump".into(), format!("{n} bytes were written at absolute offset {at:#x}; the destination was positioned at {:#x} when the dump started", d.base + start)));
    }
    // nothing before the starting position is touched (neither stored nor even written to)
    for op in &d.log {
        if let DestOp::Write { at, .. } = op {
            if *at < start {
                return Some(("write-before-start".into(), format!("a write at offset {at} precedes the starting position {start}")));
            }
        }
    }
    for i in 0..s.min(d.data.len()) {
        let want = pre.get(i).copied().unwrap_or(0);
        if d.data[i] != want {
            return Some(("before-start-modified".into(), format!("byte {i} before the starting position changed")));
        }
    }
    let extent = d.log.iter().filter_map(|o| if let DestOp::Write { at, data } = o { Some(*at as usize + data.len()) } else { None }).max().unwrap_or(s);
    match r {
        DumpResult::Ok(img) => {
            if d.data.len() < s + img.len() || d.data[s..s + img.len()] != img[..] {
                let first = (0..img.len()).find(|i| d.data.get(s + i) != Some(&img[*i])).unwrap_or(0);
                return Some(("destination-differs-from-returned-image".into(), format!("byte {first} of the returned image is not what the destination holds at start+{first}")));
            }
            if extent > s + img.len() {
                return Some(("write-beyond-image-end".into(), format!("a write reached offset {extent}, the image ends at {}", s + img.len())));
            }
            for i in (s + img.len())..d.data.len() {
                if Some(&d.data[i]) != pre.get(i) {
                    return Some(("beyond-image-end-modified".into(), format!("destination byte {i} beyond the end of the image changed or appeared")));
                }
            }
        }
        _ => {
            // aborted: bytes beyond what was written are unchanged
            for i in extent.max(s)..d.data.len() {
                if Some(&d.data[i]) != pre.get(i) {
                    return Some(("aborted/beyond-written-extent-modified".into(), format!("destination byte {i} beyond the last written byte changed")));
                }
            }
            if d.data.len() > pre.len().max(extent) {
                return Some(("aborted/destination-grew".into(), "the destination grew beyond what was written".into()));
            }
        }
    }
    None
}

pub struct Res {
    case: Value,
    fails: Vec<(String, String)>,
    dumps: u64,
    aborted: u64,
}

fn run_one(shape: &Shape, t: &[usize], start: u64, pre_kind: usize, faults: bool, bad_app: bool) -> Res {
    let mut b = build(shape);
    let env = env_of(&mut b);
    let mut o: DumpOpts = opts_for(t, &b, &env);
    if bad_app {
        o.app_memory.push((0x10, 64)); // unreadable region: hard error in the middle of the dump
    }
    let case = json!({"shape": shape.to_json(), "options": t, "start": start, "pre": pre_kind, "faults": faults, "bad_app": bad_app});
    let pre = pre_bytes(pre_kind, start);
    let mut fails = Vec::new();
    let (r, d) = dump_recorded(b.p.pid, &o, start, pre.clone(), Fault::None);
    let mut dumps = 1;
    let mut aborted = !matches!(r, DumpResult::Ok(_)) as u64;
    if let Some((k, m)) = check(start, &pre, &r, &d) {
        fails.push((k, m));
    }
    // the same destination presented just below / beyond 4 GiB and at 2^40 (a dump appended to a huge file)
    for base in [0xffff_f000u64, 0x1_0000_3000, 1 << 40] {
        b.p.quiesce();
        let (r2, d2) = dump_recorded_at(b.p.pid, &o, base, start, pre.clone(), Fault::None);
        dumps += 1;
        if let Some((kk, m)) = check(start, &pre, &r2, &d2) {
            fails.push((format!("high-offset/{kk}"), format!("destination window at absolute offset {base:#x}: {m}")));
        }
    }
    if faults {
        for k in 0..d.calls {
            b.p.quiesce();
            let (r2, d2) = dump_recorded(b.p.pid, &o, start, pre.clone(), Fault::ErrAt(k));
            dumps += 1;
            aborted += !matches!(r2, DumpResult::Ok(_)) as u64;
            if let Some((kk, m)) = check(start, &pre, &r2, &d2) {
                if !fails.iter().any(|f| f.0 == kk) {
                    fails.push((kk, format!("destination error at call {k}: {m}")));
                }
            }
        }
        for sw in [1usize, 4093] {
            b.p.quiesce();
            let (r2, d2) = dump_recorded(b.p.pid, &o, start, pre.clone(), Fault::ShortWrites(sw));
            dumps += 1;
            if let Some((kk, m)) = check(start, &pre, &r2, &d2) {
                fails.push((format!("short-writes/{kk}"), m));
            }
        }
    }
    Res { case, fails, dumps, aborted }
}

pub fn run(ctx: &Ctx, rep: &mut Report) {
    let shape = shape_n3();
    let mut items: Vec<(Vec<usize>, u64, usize, bool, bool)> = Vec::new();
    let tuples: Vec<Vec<usize>> = if ctx.tier.is_thorough() {
        let mut v = Vec::new();
        mdv_core::lat::lat(&crate::checks::c01::DIMS, 1, |t| v.push(t.to_vec()));
        v
    } else {
        vec![vec![0; 7], vec![1, 1, 1, 1, 2, 1, 1]]
    };
    for t in &tuples {
        for start in [0u64, 1, 4103] {
            for pre in 0..3usize {
                if start == 0 && pre == 1 {
                    continue;
                }
                items.push((t.clone(), start, pre, false, false));
                items.push((t.clone(), start, pre, false, true));
            }
        }
    }
    // destination fault at every call: a few placements
    items.push((vec![0; 7], 4103, 2, true, false));
    items.push((vec![1, 1, 1, 1, 2, 1, 1], 1, 2, true, false));
    if ctx.tier.is_thorough() {
        items.push((vec![0; 7], 0, 0, true, false));
        items.push((vec![1, 0, 1, 0, 1, 0, 1], 13, 1, true, true));
    }
    let results = par_map(&items, |_, (t, s, p, f, bad)| run_one(&shape, t, *s, *p, *f, *bad));
    let (mut dumps, mut aborted) = (0, 0);
    for r in results {
        dumps += r.dumps;
        aborted += r.aborted;
        if rep.samples.len() < 4 {
            rep.sample(r.case.clone());
        }
        for (k, m) in r.fails {
            rep.violation(&format!("dump/{k}"), &m, r.case.clone());
        }
    }
    rep.evaluations += dumps;
    rep.transitions += dumps;
    rep.traces += dumps;
    rep.nontrivial += aborted;
    rep.set("whole_dumps", json!({"dumps": dumps, "aborted_dumps": aborted, "placements": items.len()}));
}

pub fn replay(case: &Value, rep: &mut Report) {
    let Some(shape) = case.get("shape").and_then(Shape::from_json) else {
        rep.machinery("bad replay".into());
        return;
    };
    let t: Vec<usize> = case.get("options").and_then(|o| o.as_array()).map(|a| a.iter().map(|x| x.as_u64().unwrap_or(0) as usize).collect()).unwrap_or_default();
    let g = |k: &str| case.get(k).and_then(|v| v.as_u64()).unwrap_or(0);
    let gb = |k: &str| case.get(k).and_then(|v| v.as_bool()).unwrap_or(false);
    let r = run_one(&shape, &t, g("start"), g("pre") as usize, gb("faults"), gb("bad_app"));
    rep.evaluations += r.dumps;
    for (k, m) in r.fails {
        rep.violation(&format!("dump/{k}"), &m, case.clone());
    }
}
