//! C10 end-to-end part: every prefix of the destination op log of real dumps (crash points), and
//! an I/O error injected at every destination call, under each option tuple.

use crate::checks::c01::{env_of, opts_for, DIMS};
use crate::dest::{replay_prefix, DestOp, Fault};
use crate::dump::{dump_recorded, DumpOpts, DumpResult};
use crate::shapes::{build, par_map, Shape};
use crate::Ctx;
use mdv_core::mdparse::{Dump, Kind};
use mdv_core::{json, Report, Value};

/// The truncated-minidump invariant on one prefix image. `img`/`written` start at the dump's start offset.
pub fn prefix_invariant(img: &[u8], written: &[bool]) -> Option<(String, String)> {
    let is_written = |a: u64, b: u64| -> bool { (b as usize) <= written.len() && written[a as usize..b as usize].iter().all(|w| *w) };
    if img.len() < 32 || !is_written(0, 32) {
        return Some(("header-missing".into(), "the header is not completely present".into()));
    }
    let d = Dump::parse(img);
    if d.signature != mdv_core::mdparse::SIGNATURE {
        return Some(("header-garbage".into(), "the header has no valid signature".into()));
    }
    let dir_end = d.dir_rva as u64 + 12 * d.stream_count as u64;
    if d.dir.len() != d.stream_count as usize || !is_written(d.dir_rva as u64, dir_end) {
        return Some(("directory-missing".into(), format!("the directory [{:#x}, {:#x}) is not completely present", d.dir_rva, dir_end)));
    }
    for (slot, e) in d.dir.iter().enumerate() {
        if e.ty == 0 {
            if e.size != 0 || e.rva != 0 {
                return Some(("torn-entry".into(), format!("slot {slot}: type 0 with location ({:#x}, {})", e.rva, e.size)));
            }
            continue;
        }
        let s = e.rva as u64;
        let t = s + e.size as u64;
        if !is_written(s, t) {
            return Some(("entry-before-data".into(), format!("slot {slot} ({}) names bytes [{s:#x}, {t:#x}) that have not all reached the destination", mdv_core::mdparse::stream_name(e.ty))));
        }
        for o in d.objects.iter().filter(|o| o.owner == slot && o.kind != Kind::Stream) {
            if !is_written(o.start, o.end) {
                return Some(("referenced-blob-missing".into(), format!("slot {slot} ({}): {} [{:#x}, {:#x}) is not completely present", mdv_core::mdparse::stream_name(e.ty), o.what, o.start, o.end)));
            }
        }
    }
    // anything the strict parser complains about in a used entry (out-of-bounds references etc.)
    if let Some(e) = d.errors.iter().find(|e| e.contains("out of bounds")) {
        return Some(("reference-out-of-bounds".into(), e.clone()));
    }
    None
}

pub struct Res {
    case: Value,
    fails: Vec<(String, String)>,
    crash_points: u64,
    windows: u64,
    fault_runs: u64,
    ok: bool,
}

fn check_log(pre: &[u8], start: u64, log: &[DestOp], fails: &mut Vec<(String, String)>, what: &str) -> u64 {
    let mut points = 0;
    for n in 1..=log.len() {
        if !matches!(log[n - 1], DestOp::Write { .. } | DestOp::Seek { .. }) {
            continue;
        }
        if !log[..n].iter().any(|o| matches!(o, DestOp::Write { .. })) {
            continue;
        }
        points += 1;
        let (data, written) = replay_prefix(pre, log, n);
        let s = start as usize;
        if data.len() <= s {
            continue;
        }
        if let Some((k, m)) = prefix_invariant(&data[s..], &written[s..]) {
            if !fails.iter().any(|f| f.0 == k) {
                fails.push((k, format!("{what}: after {n} of {} destination calls: {m}", log.len())));
            }
        }
    }
    points
}

fn run_tuple(shape: &Shape, t: &[usize], with_faults: bool) -> Res {
    let mut b = build(shape);
    let env = env_of(&mut b);
    let o: DumpOpts = opts_for(t, &b, &env);
    let case = json!({"shape": shape.to_json(), "options": t, "with_faults": with_faults});
    let mut fails = Vec::new();
    let start = 7u64;
    let pre: Vec<u8> = vec![0xEE; 7];
    let (r, d) = dump_recorded(b.p.pid, &o, start, pre.clone(), Fault::None);
    let ok = matches!(r, DumpResult::Ok(_));
    let mut crash_points = check_log(&pre, start, &d.log, &mut fails, "crash point");
    // count the windows between a directory-entry write and the end (vacuity counter): entry writes are 12-byte writes into the directory
    let windows = d.log.iter().filter(|o| matches!(o, DestOp::Write { data, .. } if data.len() == 12)).count() as u64;
    let mut fault_runs = 0;
    if with_faults {
        // a retry on the SAME writer after a request that was aborted half-way (an unreadable application region
        // behind 64 readable ones), the caller having put its original regions back: every crash point of the retry
        {
            b.p.quiesce();
            let mut o1 = o.clone();
            let good = (env.main_stack.1 - 0x2000) as usize;
            o1.app_memory = (0..64).map(|_| (good, 4096usize)).chain([(0x10usize, 64usize)]).collect();
            let mut w = crate::dump::make_writer(b.p.pid, &o1);
            let mut sink = std::io::Cursor::new(Vec::new());
            let r0 = crate::dump::dump_with(&mut w, &mut sink);
            if !matches!(r0, DumpResult::Ok(_)) {
                w.set_app_memory(o.app_memory.iter().map(|(p, l)| minidump_writer::app_memory::AppMemory { ptr: *p, length: *l }).collect());
                crate::checks::universal::note_writer(b.p.pid, &o);
                b.p.quiesce();
                let mut d4 = crate::dest::RecDest::new(pre.clone(), start, Fault::None);
                let r4 = crate::dump::dump_with(&mut w, &mut d4);
                fault_runs += 1;
                if let DumpResult::Panic(p) = &r4 {
                    fails.push(("retry-after-abort/panic".into(), format!("the retry panicked: {p}")));
                }
                let mut f4 = Vec::new();
                crash_points += check_log(&pre, start, &d4.log, &mut f4, "retry on the same writer after an aborted request, crash point");
                for (k, msg) in f4 {
                    if !fails.iter().any(|f| f.0 == format!("retry-after-abort/{k}")) {
                        fails.push((format!("retry-after-abort/{k}"), msg));
                    }
                }
            }
        }
        // a destination that accepts at most 4096 / 50000 bytes per write (header + directory and every
        // directory entry still go out in one piece): every crash point of the longer op log
        for m in [4096usize, 50000] {
            b.p.quiesce();
            let (r3, d3) = dump_recorded(b.p.pid, &o, start, pre.clone(), Fault::ShortWrites(m));
            fault_runs += 1;
            if let DumpResult::Panic(p) = &r3 {
                fails.push(("panic-on-short-writes".into(), format!("destination accepting at most {m} bytes per write: dump panicked: {p}")));
            }
            let mut f3 = Vec::new();
            crash_points += check_log(&pre, start, &d3.log, &mut f3, &format!("destination accepting at most {m} bytes per write, crash point"));
            for (k, msg) in f3 {
                if !fails.iter().any(|f| f.0 == format!("short-writes/{k}")) {
                    fails.push((format!("short-writes/{k}"), msg));
                }
            }
        }
        for k in 0..d.calls {
            b.p.quiesce();
            let (r2, d2) = dump_recorded(b.p.pid, &o, start, pre.clone(), Fault::ErrAt(k));
            fault_runs += 1;
            if let DumpResult::Panic(p) = &r2 {
                fails.push(("panic-on-destination-error".into(), format!("destination error at call {k}: dump panicked: {p}")));
            }
            if matches!(r2, DumpResult::Ok(_)) && d2.fault_fired {
                fails.push(("error-swallowed".into(), format!("destination error at call {k} but dump() returned Ok")));
            }
            // what reached the destination must be a consistent truncated minidump
            let n = d2.log.len();
            if d2.log.iter().any(|o| matches!(o, DestOp::Write { .. })) {
                let (data, written) = replay_prefix(&pre, &d2.log, n);
                crash_points += 1;
                let s = start as usize;
                if data.len() > s {
                    if let Some((kk, m)) = prefix_invariant(&data[s..], &written[s..]) {
                        if !fails.iter().any(|f| f.0 == format!("after-io-error/{kk}")) {
                            fails.push((format!("after-io-error/{kk}"), format!("I/O error injected at destination call {k}: {m}")));
                        }
                    }
                }
            }
        }
    }
    Res { case, fails, crash_points, windows, fault_runs, ok }
}

pub fn run(ctx: &Ctx, rep: &mut Report) {
    let shape = crate::checks::c01::shape_n3();
    let mut tuples: Vec<(Vec<usize>, bool)> = Vec::new();
    if ctx.tier.is_thorough() {
        mdv_core::lat::product(&DIMS, |t| tuples.push((t.to_vec(), false)));
        let mut seen = 0;
        mdv_core::lat::lat(&DIMS, 1, |t| {
            let _ = seen;
            seen += 1;
            tuples.push((t.to_vec(), true));
        });
    } else {
        mdv_core::lat::lat(&DIMS, 2, |t| tuples.push((t.to_vec(), false)));
        // injected I/O errors at every call: the plain dump and the all-options dump
        tuples.push((vec![0; 7], true));
        tuples.push((vec![1, 1, 1, 1, 2, 1, 1], true));
        tuples.push((vec![3, 0, 0, 2, 1, 0, 2], true));
    }
    let results = par_map(&tuples, |_, (t, f)| run_tuple(&shape, t, *f));
    let (mut cps, mut wins, mut frs, mut oks) = (0u64, 0u64, 0u64, 0u64);
    for r in results {
        rep.states += 1;
        cps += r.crash_points;
        wins += r.windows;
        frs += r.fault_runs;
        if r.ok {
            oks += 1;
            rep.nontrivial += 1;
        }
        if rep.samples.len() < 3 {
            rep.sample(r.case.clone());
        }
        for (k, m) in r.fails {
            rep.violation(&format!("dump/{k}"), &m, r.case.clone());
        }
    }
    rep.transitions += cps;
    rep.evaluations += cps;
    rep.traces += oks + frs;
    rep.set("whole_dumps", json!({"recorded_dumps": tuples.len(), "succeeded": oks, "crash_points_checked": cps, "directory_entry_writes_seen": wins, "dumps_with_injected_io_error": frs}));
    if oks == 0 {
        rep.machinery("no recorded dump succeeded".into());
    }
}

pub fn replay(case: &Value, rep: &mut Report) {
    let Some(shape) = case.get("shape").and_then(Shape::from_json) else {
        rep.machinery("bad replay".into());
        return;
    };
    let t: Vec<usize> = case.get("options").and_then(|o| o.as_array()).map(|a| a.iter().map(|x| x.as_u64().unwrap_or(0) as usize).collect()).unwrap_or_default();
    let r = run_tuple(&shape, &t, case.get("with_faults").and_then(|v| v.as_bool()).unwrap_or(false));
    rep.evaluations += r.crash_points;
    for (k, m) in r.fails {
        rep.violation(&format!("dump/{k}"), &m, case.clone());
    }
}
