//! C10 end-to-end part (recorded whole dumps) — needs the puppet.
use crate::Ctx;
use mdv_core::{Report, Value};
pub fn run(_ctx: &Ctx, _rep: &mut Report) {}
pub fn replay(_case: &Value, rep: &mut Report) {
    rep.machinery("end-to-end C10 replay not available yet".into());
}
