//! One dump under a controlled environment: libc plan + placement callbacks + fail points +
//! destination fault.

use crate::dest::{Fault, RecDest};
use crate::dump::{dump_with, make_writer, DumpOpts, DumpResult};
use crate::env::{self, Alt, Call, Callback, Env};
use crate::puppet::Puppet;
use minidump_writer::FailSpotName;
use std::collections::HashMap;
use std::sync::RwLock;

/// Fail points are process-global: runs that enable any take the write lock, all others the read lock.
pub static FP_LOCK: RwLock<()> = RwLock::new(());

pub const FAILPOINTS: [(&str, FailSpotName); 5] = [
    ("StopProcess", FailSpotName::StopProcess),
    ("FillMissingAuxvInfo", FailSpotName::FillMissingAuxvInfo),
    ("ThreadName", FailSpotName::ThreadName),
    ("SuspendThreads", FailSpotName::SuspendThreads),
    ("CpuInfoFileOpen", FailSpotName::CpuInfoFileOpen),
];

#[derive(Clone, Debug, Default)]
pub struct EnvSpec {
    pub plan: Vec<(String, Alt)>,
    /// bit i = FAILPOINTS[i]
    pub failpoints: u8,
    pub dest_fault: Option<Fault>,
    pub opts: DumpOpts,
}

pub struct EnvOut {
    pub result: DumpResult,
    pub trace: Vec<Call>,
    pub dev_opens: Vec<String>,
    pub all_opens: Vec<String>,
    pub refused: Vec<String>,
    pub dest: RecDest,
}

pub fn tids_of(p: &Puppet) -> Vec<i32> {
    let mut t = vec![p.pid];
    t.extend(p.threads.iter().map(|x| x.tid));
    t.extend(p.extra_tids.iter().copied());
    t
}

pub fn env_dump(p: &Puppet, spec: &EnvSpec, before: HashMap<String, Callback>, after_return: Option<Callback>) -> EnvOut {
    let _guard_w;
    let _guard_r;
    if spec.failpoints != 0 {
        _guard_w = Some(FP_LOCK.write().unwrap_or_else(|e| e.into_inner()));
        _guard_r = None;
    } else {
        _guard_r = Some(FP_LOCK.read().unwrap_or_else(|e| e.into_inner()));
        _guard_w = None;
    }
    // failspot's testing client holds a process-global mutex for its whole lifetime: only take it
    // when fail points are actually requested, otherwise every dump in the process would serialise
    let mut fp = None;
    if spec.failpoints != 0 {
        let mut c = FailSpotName::testing_client();
        for (i, (_, f)) in FAILPOINTS.iter().enumerate() {
            if spec.failpoints & (1 << i) != 0 {
                c.set_enabled(*f, true);
            }
        }
        fp = Some(c);
    }
    let mut e = Env::new(p.pid, tids_of(p));
    for (k, a) in &spec.plan {
        e.plan.insert(k.clone(), a.clone());
    }
    e.before = before;
    e.after_return = after_return;
    let mut dest = RecDest::new(Vec::new(), 0, spec.dest_fault.unwrap_or(Fault::None));
    let mut w = make_writer(p.pid, &spec.opts);
    let degraded = !spec.plan.is_empty() || spec.failpoints != 0 || !e.before.is_empty() || e.after_return.is_some() || spec.dest_fault.is_some();
    let was = crate::checks::universal::set_degraded(degraded);
    env::arm(e);
    let result = dump_with(&mut w, &mut dest);
    drop(w);
    env::fire_after_return();
    let e = env::disarm().expect("env");
    drop(fp);
    if spec.dest_fault.is_none() {
        crate::checks::universal::dest_check(&result, &dest.data, 0);
    }
    crate::checks::universal::flush_pending();
    crate::checks::universal::set_degraded(was);
    EnvOut { result, trace: e.trace, dev_opens: e.dev_opens, all_opens: e.all_opens, refused: e.refused, dest }
}

/// The keys of a baseline (no deviation) run, for enumeration of single deviations.
pub fn baseline_trace(p: &Puppet, opts: &DumpOpts) -> Vec<Call> {
    let out = env_dump(p, &EnvSpec { opts: opts.clone(), ..Default::default() }, HashMap::new(), None);
    out.trace
}

/// Plans that force the writer onto one of its three remote-memory strategies for a whole dump.
pub fn strategy_plan(which: u8) -> Vec<(String, Alt)> {
    match which {
        // process_vm_readv unavailable (old kernel / seccomp): /proc/<pid>/mem is used
        1 => vec![("vmread#*".into(), Alt::Errno(libc::ENOSYS))],
        // neither: word-by-word PTRACE_PEEKDATA
        2 => vec![("vmread#*".into(), Alt::Errno(libc::ENOSYS)), ("open:/proc/*/mem#*".into(), Alt::Errno(libc::EACCES))],
        _ => vec![],
    }
}
