#!/bin/bash
# ./collect_seeded.sh <worktree name under /tmp/wt> [name under /verif/seeded] [property id]  — verify a sub-agent's seeded change in its worktree /tmp/wt/<Cxx>,
# store it under /verif/seeded/<name>, run our quick check against it, then remove the worktree.
set -u
p="$1"; name="${2:-$1}"; prop="${3:-$1}"; wt=/tmp/wt/$p; out=/verif/seeded/$name
[ -f $wt/seeded/patch.diff ] || { echo "no patch in $wt/seeded"; exit 2; }
mkdir -p $out && cp -r $wt/seeded/* $out/
log=$out/verify.log; : > $log
export CARGO_TARGET_DIR=$wt/target CARGO_NET_OFFLINE=true
cd $wt && git checkout -q -- src 2>/dev/null
demo=$(ls tests/seeded*.rs tests/*demo*.rs 2>/dev/null | head -1)
echo "demo file: $demo" | tee -a $log
demo_name=$(basename "${demo%.rs}")
run_demo() { timeout 300 cargo test --offline --test "$demo_name" > $out/demo.out 2>&1 < /dev/null; grep -E "^test result|FAILED|failed|panicked" $out/demo.out | head -5; pkill -9 -f "$wt/target/.*/debug/test" 2>/dev/null; rm -f $out/demo.out; }
echo "== without patch: demo" | tee -a $log; run_demo | tee -a $log
git apply seeded/patch.diff || { echo "patch does not apply in worktree" | tee -a $log; }
echo "== with patch: baseline suite" | tee -a $log
timeout 900 cargo nextest run --workspace --no-fail-fast --test-threads 8 --offline > $out/suite.out 2>&1 < /dev/null; grep -E "Summary|FAIL" $out/suite.out | head -8 | tee -a $log; rm -f $out/suite.out; pkill -9 -f "$wt/target/.*/debug/test" 2>/dev/null
echo "== with patch: demo" | tee -a $log; run_demo | tee -a $log
git checkout -q -- src
# our check against the change applied to /repo (rebased onto /repo's HEAD if needed)
cd /verif
unset CARGO_TARGET_DIR
if git -C /repo diff --quiet; then
  if git -C /repo apply $out/patch.diff 2>>$log; then
    echo "== our check ($prop quick) with the change applied to /repo" | tee -a $log
    timeout 1200 ./check $prop quick > $out/check.out 2>&1 < /dev/null; echo "check exit: $?" > $out/check.rc; grep -E "VIOLATION|KNOWN|MACHINERY|^C[0-9]+ " $out/check.out | head -8 | tee -a $log; cat $out/check.rc | tee -a $log; rm -f $out/check.out $out/check.rc
    git -C /repo checkout -q -- .
  else
    echo "patch does not apply to /repo HEAD (fix commits?) - needs manual rebase" | tee -a $log
  fi
else
  echo "/repo dirty, skipped our check" | tee -a $log
fi
cd /repo && git worktree remove --force $wt && echo "worktree removed" | tee -a $log
