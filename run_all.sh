#!/bin/bash
# ./run_all.sh quick|thorough  — run every check, print one line each (for development)
tier="${1:-quick}"
for p in C01 C02 C03 C04 C05 C06 C07 C08 C09 C10 C11 C12 C13 C14 C15 C16 C17 C18 C19 C20; do
  s=$(date +%s)
  timeout 3000 /verif/check $p $tier > /tmp/runall.$p.out 2>&1 < /dev/null; rc=$?
  e=$(date +%s)
  echo "$p rc=$rc $((e-s))s $(grep -E "^$p " /tmp/runall.$p.out | tail -1)"
  grep -E "VIOLATION|MACHINERY|KNOWN" /tmp/runall.$p.out | head -5
done
