#!/bin/bash
# ./stability.sh <rounds> [checks...] — run the quick tier repeatedly on the unchanged tree; any non-zero exit is printed
rounds="${1:-10}"; shift
checks="${@:-C01 C02 C03 C04 C05 C06 C07 C11 C15 C18 C19}"
bad=0
for i in $(seq 1 $rounds); do
  for p in $checks; do
    timeout 1200 /verif/check $p quick > /tmp/stab.$p.out 2>&1 < /dev/null; rc=$?
    if [ $rc -ne 0 ]; then bad=$((bad+1)); echo "round $i $p rc=$rc"; grep -E "^violation|MACHINERY" /tmp/stab.$p.out | head -3 | cut -c1-600; cp /tmp/stab.$p.out /tmp/stab.fail.$i.$p.out; fi
  done
done
echo "stability: $rounds rounds x ($checks): $bad failures"
