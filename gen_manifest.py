#!/usr/bin/env python3
"""Regenerates MANIFEST.json from the table below (single source of truth for the interface)."""
import json, sys
BASE = "cd /repo && cargo nextest run --workspace --no-fail-fast --test-threads 8 --offline || cargo test --workspace --no-fail-fast --offline"
CHECKS = {
 "C02": dict(cat="model_checking", eng="mdv-env", ref="DESIGN.md §3 C02",
   tech="deviation-bounded exhaustive enumeration of hostile-value alphabets per input family (registers, auxv, synthetic linker data in target memory, mutated mapped ELF images, /dev-backed mappings, names, configuration) + every alternative answer of every intercepted libc call, each as a real dump under a watchdog; every open() of the dumper is observed through the interposed libc",
   text="Crash-context rsp(23) x rip(24) x option sets; live spin-thread rsp(23); direct auxv phnum(8) x phdr(8) x gate(4) x entry(4) (<=2 deviations quick, product thorough); every 8-byte field of synthetic program headers / dynamic entries / r_debug / link_maps in target memory x 22 boundary values + 12 chain shapes (cycles, unterminated, names at the edge of readable memory); 10 kinds of /dev-backed mappings; 12 hostile thread names x 3 threads; 26 configuration extremes; every libc call of the baseline trace x {errno alternatives, 1- and 7-byte reads}; every header field of generated ELF images mapped into the target x 12 values; 61 880 (thorough 800k) version-suffixed mapping names in-process. Each outcome must be Ok or Err within 20 s, no panic, no open of a path under /dev.",
   note="Values outside the alphabets are not covered. A hang ends the run with a VIOLATION from the watchdog (one finding per run). kill/ptrace/process_vm_readv of the subject are only forwarded for pids of the worker's own puppet."),
 "C03": dict(cat="model_checking", eng="mdv-env", ref="DESIGN.md §3 C03",
   tech="deviation-bounded exhaustive exploration of fault points x signal-event placements at intercepted libc call boundaries around real dumps; oracle on /proc state, heartbeats and per-thread signal logs",
   text="Every destination call failing or panicking, a hard error mid-dump, every injectable libc answer of the recorded baseline trace (attach/wait/regs/vmread/open/opendir/kill/uname) and the StopProcess fail point, each run to completion; plus every placement of one signal event (SIGUSR1/SIGRTMIN to each thread, process-directed SIGUSR2) before ~18 keyed syscalls and after return under four fault contexts (thorough: all pairs of events with different signal numbers). After each run: no thread traced or stopped within 2 s, every thread makes progress, every sent signal handled exactly once; every successful attach has a detach.",
   note="Placement is at the dumper's syscall boundaries (callbacks run inside the interposed libc wrapper). The kernel's choice among runnable target threads is not controlled; DETACH/CONT/SIGCONT are never faked. A hang is reported as a violation by the watchdog."),
 "C11": dict(cat="model_checking", eng="mdv-env", ref="DESIGN.md §3 C11 / Appendix B",
   tech="exhaustive fail-point subsets + single/pairwise world-consistent fault injection at the libc boundary, differential against a baseline dump",
   text="All 32 subsets of the five fail points x N in {1,3} x crash context on/off, and 37 natural failures of best-effort steps (kill EPERM, stop never observed, auxv unreadable/truncated, each thread's comm unreadable, each attach failing, cpuinfo/status/release/cmdline/environ/maps/limits unreadable, fd listing denied, program headers unreadable, unknown principal mapping, ...) alone and (thorough) in all non-masking pairs: dump must return Ok, the soft-error stream must be a JSON list naming each injected failure, [] without injection, and all streams not fed by the failed step must equal the baseline dump of the same puppet.",
   note="Pairs of injections into the same step mask each other and are excluded (conflict relation in c11.rs)."),
 "C04": dict(cat="model_checking", eng="mdv-lat", ref="DESIGN.md §3 C04",
   tech="exhaustive single-deviation enumeration of register files on live puppet threads + thread-count/kind shapes + busy-counter snapshot coherence, on real dumps",
   text="One puppet thread per register file: the all-distinct base and every single deviation over 34 register dimensions (16 GPR incl. rsp, 16 XMM, mxcsr, x87 cw) x boundary values for spin threads (all 16 GPRs loaded), the ABI-preserved registers for threads blocked in futex; thread counts up to 64 in three kind mixes with 0..2 null-stack-pointer threads (must be skipped and reported); busy counter threads under the StopProcess fail point whose register, stack slot and app-memory word must agree within one step.",
   note="Trusted: a ptrace-stopped thread does not execute. Exit-subset schedules and the syscall-order monitor belong to the interposition explorer."),
 "C06": dict(cat="model_checking", eng="mdv-lat", ref="DESIGN.md §3 C06",
   tech="exhaustive enumeration of in-page stack-pointer offsets x stack layouts on the real get_stack_info, plus real dumps of spin threads with chosen rsp around the 20-thread / size-limit thresholds",
   text="get_stack_info on a real dumper with synthetic mappings: stack sizes {1,2,33 pages} x 4 below-stack layouts x page position x in-page offset (every 8th + neighbours quick, all 4096 thorough) x guard distances {1,2,255..258,300,1024 pages}; end-to-end: N in {1,2,19..24} (thorough: 64 threads with every offset 0..4095 at a list position >= 20) x limit in {none, T-1, T, T+1, 0, MAX} x crash context at a position >= 20 x sanitize; containment, start, end, byte fidelity and the shortening rules are checked per thread.",
   note="The estimate threshold T is restated from the writer's constants (252+48N+8192N+65536)."),
 "C07": dict(cat="model_checking", eng="mdv-lat", ref="DESIGN.md §3 C07",
   tech="exhaustive enumeration of application-region shapes and crash-IP positions on real dumps; oracle = the target's memory read back + exact range rules",
   text="Single regions (4 placements x alignment 0..7 x 9 lengths up to 1 MiB), duplicate / overlapping / adjacent region sets, crash instruction pointers at 12 offsets around the edges of four mappings (r-x 1 and 3 pages, --x, ---p), thread counts {1,3,24} incl. size-limited stacks of spin threads: every memory-list region must equal the target's bytes at its recorded range, every requested region and every non-empty stack must be listed, the IP window must be exactly [max(start,ip-128), min(end,ip+128)).",
   note="Threads are parked (blocked or spinning without touching memory), so the target's memory can be read back after the dump."),
 "C17": dict(cat="model_checking", eng="mdv-lat", ref="DESIGN.md §3 C17",
   tech="exhaustive enumeration of (alignment, length, placement, tail kind) for the three read strategies and a fresh auto-probing reader against an address-derived pattern",
   text="Start alignment 0..7 x length 1..700 + boundary powers (thorough: every length 1..4112 + powers to 64 KiB) x {region start, interior, ending exactly at the region end, crossing the end by 1..8} x tail {unmapped, PROT_NONE}, for process_vm_readv, /proc/pid/mem, PTRACE_PEEKDATA on an attached puppet and MemReader::new: readable ranges must come back complete and exact, crossing ranges may fail or return a strict exact prefix.",
   note="The PROT_NONE tail page's true content is zero (never written)."),
 "C01": dict(cat="model_checking", eng="mdv-lat", ref="DESIGN.md §3 C01",
   tech="exhaustive option-tuple enumeration (full product at N=3, <=2 deviations elsewhere) x target shapes on real dumps of a puppet process, judged by an independent strict minidump parser with interval non-overlap sweep",
   text="Every tuple of the 7 writer-option dimensions (1296) on a 3-thread puppet and every tuple with <=2 deviations on 20+ further shapes (N up to 64, four named/unnamed mixes via real non-UTF-8 kernel names, mapped ELF / non-ELF files, extra descriptors) is dumped for real; each image must satisfy the strict parser (exact stream sizes, one stream per type, every RVA in bounds with its self-declared length) and the pairwise non-overlap sweep with only the two intended identical-blob exceptions.",
   note="x86-64 Linux only; option alphabets are small boundary sets; the puppet is the only target program. Dumps that return Err are counted, not judged (C02/C11 own those)."),
 "C15": dict(cat="model_checking", eng="mdv-lat", ref="DESIGN.md §3 C15",
   tech="exhaustive enumeration of thread count x every subset of threads with unreadable kernel name x name alphabet on real dumps; oracle = tid/name pairing against /proc",
   text="For N=1..6 (thorough 8) every one of the 2^N subsets of threads is given a non-UTF-8 kernel name (the others names from an 8-letter alphabet incl. 15/16-byte, non-ASCII and whitespace names, 2 rotations), plus pattern subsets for N up to 32 and the ThreadName fail point; the names stream must pair exactly the listed, readable threads with the names /proc reports.",
   note="Unreadability is produced by real non-UTF-8 names and the crate's fail point; injected open(comm) failures come with the libc-interposition explorer."),
 "C19": dict(cat="model_checking", eng="mdv-seq", ref="DESIGN.md §3 C19",
   tech="explicit enumeration of dump histories on one writer x target changes x option sets with a differential oracle against a fresh writer",
   text="Every history of 2..3 (thorough 4, plus 5 over two changes) dump requests on one MinidumpWriter, each preceded by one of 4 target changes, under 7 option sets: after every dump a fresh identically configured writer dumps the same quiescent (CPU-pinned) puppet and the normalised decodings (RVAs replaced by content) must be equal; the reused writer's image must also pass the structural validator.",
   note="Volatile streams (timestamp, cpuinfo, status) masked. Equivalence when both writers fail is accepted."),
 "C05": dict(cat="model_checking", eng="mdv-lat", ref="DESIGN.md §3 C05",
   tech="deviation-bounded exhaustive enumeration (LAT) of ucontext/fpstate fields on the real fill_cpu_context vs. an independent field table",
   text="All tuples with <=1 (thorough <=2) deviations from an all-distinct base over 127 input dimensions x 6 boundary values are pushed through the real CrashContext::fill_cpu_context / get_instruction_pointer / get_stack_pointer and every CONTEXT_AMD64 field the statement names is compared with a field table restated from the two format definitions.",
   note="x86-64 only. Values outside the 6-letter boundary alphabet are not covered. End-to-end part (exception record vs. thread list) is added when the puppet-based driver is wired in."),
 "C09": dict(cat="model_checking", eng="mdv-seq", ref="DESIGN.md §3 C09",
   tech="explicit-state exploration of DirSection operation histories x initial states x single destination faults vs. a byte-vector file model",
   text="Every history of <=6 (thorough 7) grow/flush/entry operations on the real DirSection, from 30 initial states (slots x start offset x pre-content), plus one injected destination error at every call and short writes for histories <=4 (5), is executed against a recording destination and compared with a Vec<u8> file model after every operation.",
   note="Destination model: in-memory cursor semantics (seek past end zero-fills). Histories stop at the first failed call (a failed DirSection is abandoned by the writer)."),
 "C10": dict(cat="model_checking", eng="mdv-seq", ref="DESIGN.md §3 C10",
   tech="exhaustive crash-point enumeration: every prefix of the destination op log of every DirSection history, replayed with a written-bytes bitmap",
   text="For every DirSection history (<=5/6 ops after the initial flush, 30 initial states) every prefix of the recorded destination op log is replayed into a file image plus written-bytes bitmap and checked: header+directory present, every non-empty slot names only completely written bytes equal to the final image.",
   note="A completed write is assumed durable and ordered (no torn writes below the call granularity). Whole-dump crash points are added with the puppet-based driver."),
 "C12": dict(cat="model_checking", eng="mdv-lat", ref="DESIGN.md §3 C12",
   tech="exhaustive enumeration of mapping layouts x ordered word sequences x stack-pointer offsets x lengths on the real sanitize_stack_copy vs. a classifier restated from the statement",
   text="Layouts (subsets of <=3 (thorough 5) of 8 candidate mappings around 2 MiB bucket and 4 GiB pre-filter-wrap boundaries x executable flags x 3 stack variants) x all singles and ordered pairs over a ~50-word per-layout boundary alphabet, triples over a 12-word core, 8 stack-pointer offsets, plus every (offset 0..24, length 0..48): each call of the real function is judged by the statement's laws.",
   note="A real PtraceDumper on an idle child with its public `mappings` field overwritten. 64-bit only; words outside the alphabet not covered."),
 "C13": dict(cat="model_checking", eng="mdv-seq", ref="DESIGN.md §3 C13",
   tech="exhaustive enumeration of memory-map texts up to a line bound x vDSO address through the real parser+aggregate, judged by statement invariants only",
   text="All maps of <=3 lines over a 56-letter line alphabet, <=4 over 36 letters, <=5 over 16 letters (thorough 4/5/7), each x every vDSO-address choice, rendered as /proc/pid/maps text and pushed through procfs-core + MappingInfo::aggregate; plus the maps of every live process. Oracle: ordering/disjointness, exact hull, contiguity and merge justification, gate naming.",
   note="Lenient readings (documented in DESIGN.md): reserved-gap line need not be anonymous; empty-page fold does not require the file to be executable."),
 "C14": dict(cat="model_checking", eng="mdv-lat", ref="DESIGN.md §3 C14",
   tech="structure-aware exhaustive mutation (every field x boundary values, truncations, byte flips) of generated ELF images + all installed ELF files vs. an independent ELF reader",
   text="23 base images (64/32-bit, LE/BE, with/without notes, SONAME, sections, split PT_LOAD) x every header field x 18 boundary values (thorough: all field pairs x 6 values on 3 images), every truncation, every byte x {00,ff}: no panic. Base images and every installed ELF file (quick: /usr/bin + /usr/lib/x86_64-linux-gnu; thorough: /usr /opt /root toolchains): build id and SONAME equal the independent reader's.",
   note="Agreement only demanded where the independent reader finds the image well-formed and unambiguous. Memory-vs-file: 8 fixture libraries and 6 (thorough 14) system libraries are dlopen'ed into a puppet and identified from target memory and from the file."),
 "C20": dict(cat="model_checking", eng="mdv-lat", ref="DESIGN.md §3 C20",
   tech="exhaustive enumeration of stack-copy length x SP offset x pointer position/alignment x pointer value on the real stack_has_pointer_to_mapping vs. the statement's iff-rule",
   text="Copy length 0..40 x stack-pointer offset 0..24 x pointer byte offset 0..32 (aligned and unaligned) x 6 values around the mapping bounds, plus no-pointer and decoys-below-SP cases: the real function must answer exactly the iff-rule and never panic.",
   note="End-to-end part (which stacks are kept in a dump) is added with the puppet-based driver."),
 "C16": dict(cat="model_checking", eng="mdv-seq", ref="DESIGN.md §3 C16",
   tech="explicit-state BFS over operation histories of the real mem_writer API vs. a Vec<u8> reference builder",
   text="Every history of reserve/write/fill-later/array/string operations up to the depth bound (53-letter alphabet depth 4, 20-letter core depth 5 quick / 6 thorough) is executed on the real Buffer and compared byte-for-byte, location-for-location with a Vec<u8> reference model after every transition; every string of <=3 code points over a 10-letter boundary alphabet is round-tripped. Exhaustive inside those bounds.",
   note="Trusted: scroll's derived Pread/Pwrite being inverse on POD format structs (self-checked at start-up; primitives + 3 structs checked byte-exact against a hand encoder). Values outside the pattern alphabet and longer histories are not covered."),
}
TODO = {}
def main():
    props = [json.loads(l)["id"] for l in open("/verif/properties.jsonl")]
    checks = []
    for pid in props:
        if pid not in CHECKS: continue
        c = CHECKS[pid]
        checks.append({
          "property_id": pid,
          "quick_cmd": f"./check {pid} quick",
          "thorough_cmd": f"./check {pid} thorough",
          "evidence_file": f"/verif/evidence/{pid}.json",
          "replay_cmd_template": f"./check {pid} --replay {{path}}",
          "engine": c["eng"],
          "level_claimed": {"category": c["cat"], "text": c["text"], "design_ref": c["ref"]},
          "level_note": c["note"],
          "technique": c["tech"],
        })
    na = [{"property_id": p, "reason": TODO.get(p, "check not built yet in this round (planned in DESIGN.md §3); nothing is claimed for it")} for p in props if p not in CHECKS]
    m = {
      "version": 1,
      "setup_cmd": "./build.sh",
      "hooks": {"guard": "none", "enable": "n/a - no source hooks: checks drive the public API, a caller-supplied recording destination, libc symbol interposition inside the checker binary, and a puppet target process", "baseline_off_cmd": BASE, "source_commits": [], "add_only": True},
      "engines": [
        {"name": "mdv-seq", "path": "harness/mdv/src/checks", "serves_properties": [p for p in props if CHECKS.get(p,{}).get("eng")=="mdv-seq"], "kind_free_text": "explicit-state BFS over operation histories of the real code (re-execution, canonical-state dedup) against reference models"},
        {"name": "mdv-lat", "path": "harness/mdv/src/checks", "serves_properties": [p for p in props if CHECKS.get(p,{}).get("eng")=="mdv-lat"], "kind_free_text": "deviation-bounded exhaustive enumeration of input lattices on the real code"},
        {"name": "mdv-env", "path": "harness/mdv/src/checks", "serves_properties": [p for p in props if CHECKS.get(p,{}).get("eng")=="mdv-env"], "kind_free_text": "deviation-bounded exhaustive exploration of environment answers (destination faults, libc answers, signal placements) around real dumps of a puppet process"},
      ],
      "checks": checks,
      "not_applicable": na,
      "notes": "Exit codes: 0 held, 1 violation, 2 machinery problem. known_findings.json lists recorded genuine defects and fixed: entries. See DESIGN.md.",
    }
    json.dump(m, open("/verif/MANIFEST.json", "w"), indent=1)
    print(f"{len(checks)} checks, {len(na)} not_applicable")
main()
