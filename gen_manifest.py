#!/usr/bin/env python3
"""Regenerates MANIFEST.json from the table below (single source of truth for the interface)."""
import json, sys
BASE = "cd /repo && cargo nextest run --workspace --no-fail-fast --test-threads 8 --offline || cargo test --workspace --no-fail-fast --offline"
CHECKS = {
 "C16": dict(cat="model_checking", eng="mdv-seq", ref="DESIGN.md §3 C16",
   tech="explicit-state BFS over operation histories of the real mem_writer API vs. a Vec<u8> reference builder",
   text="Every history of reserve/write/fill-later/array/string operations up to the depth bound (53-letter alphabet depth 4, 20-letter core depth 5 quick / 6 thorough) is executed on the real Buffer and compared byte-for-byte, location-for-location with a Vec<u8> reference model after every transition; every string of <=3 code points over a 10-letter boundary alphabet is round-tripped. Exhaustive inside those bounds.",
   note="Trusted: scroll's derived Pread/Pwrite being inverse on POD format structs (self-checked at start-up; primitives + 3 structs checked byte-exact against a hand encoder). Values outside the pattern alphabet and longer histories are not covered."),
}
TODO = {}
def main():
    props = [json.loads(l)["id"] for l in open("/verif/properties.jsonl")]
    checks = []
    for pid in props:
        if pid not in CHECKS: continue
        c = CHECKS[pid]
        checks.append({
          "property_id": pid,
          "quick_cmd": f"./check {pid} quick",
          "thorough_cmd": f"./check {pid} thorough",
          "evidence_file": f"/verif/evidence/{pid}.json",
          "replay_cmd_template": f"./check {pid} --replay {{path}}",
          "engine": c["eng"],
          "level_claimed": {"category": c["cat"], "text": c["text"], "design_ref": c["ref"]},
          "level_note": c["note"],
          "technique": c["tech"],
        })
    na = [{"property_id": p, "reason": TODO.get(p, "check not built yet in this round (planned in DESIGN.md §3); nothing is claimed for it")} for p in props if p not in CHECKS]
    m = {
      "version": 1,
      "setup_cmd": "./build.sh",
      "hooks": {"guard": "none", "enable": "n/a - no source hooks: checks drive the public API, a caller-supplied recording destination, libc symbol interposition inside the checker binary, and a puppet target process", "baseline_off_cmd": BASE, "source_commits": [], "add_only": True},
      "engines": [
        {"name": "mdv-seq", "path": "harness/mdv/src/checks", "serves_properties": [p for p in props if CHECKS.get(p,{}).get("eng")=="mdv-seq"], "kind_free_text": "explicit-state BFS over operation histories of the real code (re-execution, canonical-state dedup) against reference models"},
        {"name": "mdv-lat", "path": "harness/mdv/src/checks", "serves_properties": [p for p in props if CHECKS.get(p,{}).get("eng")=="mdv-lat"], "kind_free_text": "deviation-bounded exhaustive enumeration of input lattices on the real code"},
        {"name": "mdv-env", "path": "harness/mdv/src/checks", "serves_properties": [p for p in props if CHECKS.get(p,{}).get("eng")=="mdv-env"], "kind_free_text": "deviation-bounded exhaustive exploration of environment answers (destination faults, libc answers, signal placements) around real dumps of a puppet process"},
      ],
      "checks": checks,
      "not_applicable": na,
      "notes": "Exit codes: 0 held, 1 violation, 2 machinery problem. known_findings.json lists recorded genuine defects and fixed: entries. See DESIGN.md.",
    }
    json.dump(m, open("/verif/MANIFEST.json", "w"), indent=1)
    print(f"{len(checks)} checks, {len(na)} not_applicable")
main()
