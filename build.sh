#!/bin/bash
# Build the harness (and with it minidump-writer from /repo's current working tree) under a lock.
set -e
mkdir -p /verif/target
exec 9>/verif/target/.build.lock
flock 9
cd /verif/harness
[ -f Cargo.lock ] || cp /repo/Cargo.lock Cargo.lock
CARGO_NET_OFFLINE=true cargo build --offline --profile checked -q 2>&1
# the puppet target (C, no dependency on minidump-writer)
if [ -f /verif/harness/puppet/puppet.c ]; then
  if [ ! -x /verif/target/puppet ] || [ /verif/harness/puppet/puppet.c -nt /verif/target/puppet ]; then
    cc -O1 -g -pthread -o /verif/target/puppet.tmp /verif/harness/puppet/puppet.c -ldl && mv /verif/target/puppet.tmp /verif/target/puppet
  fi
fi
