#!/bin/bash
# Build the harness (and with it minidump-writer from /repo's current working tree) under a lock.
set -e
mkdir -p /verif/target
exec 9>/verif/target/.build.lock
flock 9
cd /verif/harness
[ -f Cargo.lock ] || cp /repo/Cargo.lock Cargo.lock
CARGO_NET_OFFLINE=true cargo build --offline --profile checked -q 2>&1
# the puppet target (C, no dependency on minidump-writer)
if [ -f /verif/harness/puppet/puppet.c ]; then
  if [ ! -x /verif/target/puppet ] || [ /verif/harness/puppet/puppet.c -nt /verif/target/puppet ]; then
    cc -O1 -g -pthread -o /verif/target/puppet.tmp /verif/harness/puppet/puppet.c -ldl && mv /verif/target/puppet.tmp /verif/target/puppet
  fi
  # the same program as a position-DEPENDENT executable (ET_EXEC at 0x400000) with a build id
  if [ ! -x /verif/target/puppet_nopie ] || [ /verif/harness/puppet/puppet.c -nt /verif/target/puppet_nopie ]; then
    cc -O1 -g -pthread -no-pie -fno-pie -Wl,--build-id=sha1 -o /verif/target/puppet_nopie.tmp /verif/harness/puppet/puppet.c -ldl && mv /verif/target/puppet_nopie.tmp /verif/target/puppet_nopie
  fi
fi

# ELF / non-ELF fixture files (generated, never committed)
F=/verif/target/fixtures
if [ ! -f $F/.done ] || [ /verif/build.sh -nt $F/.done ]; then
  rm -rf $F; mkdir -p $F
  printf 'int fix_fn(int x){return x+1;}\nint fix_data[64]={1,2,3};\n' > $F/fix.c
  cc -shared -fPIC -O1 -o $F/libfix_sha1.so $F/fix.c -Wl,--build-id=sha1 -Wl,-soname,libfixsha1.so.1
  cc -shared -fPIC -O1 -o $F/libfix_none.so $F/fix.c -Wl,--build-id=none
  cc -shared -fPIC -O1 -o $F/libfix_zero.so $F/fix.c -Wl,--build-id=0x00000000000000000000000000000000 -Wl,-soname,libfixzero.so
  cc -shared -fPIC -O1 -o $F/libfix_8.so $F/fix.c -Wl,--build-id=0x0102030405060708 -Wl,-soname,libfix8.so.2
  cc -shared -fPIC -O1 -o $F/libfix_nosoname.so $F/fix.c -Wl,--build-id=sha1
  cp $F/libfix_sha1.so "$F/lib with space.so"
  cp $F/libfix_nosoname.so "$F/$(printf 'libnonascii_\303\251.so')"
  cp $F/libfix_nosoname.so "$F/$(printf 'libastral_\360\237\246\200_x.so')"
  cp $F/libfix_nosoname.so $F/libver.so.6.0.32
  cp $F/libfix_nosoname.so $F/libver2.so.3.34.2rc5
  cp $F/libfix_sha1.so $F/libdeleted.so
  head -c 12288 /dev/zero | tr '\0' 'x' > $F/plain.bin
  cp $F/plain.bin "$F/$(printf 'plain_\303\274_\360\237\230\200.bin')"
  head -c 4096 /dev/zero | tr '\0' 'j' > $F/archive.bin; cat $F/libfix_sha1.so >> $F/archive.bin
  head -c 100 $F/libfix_sha1.so > $F/truncated.so; head -c 8192 /dev/zero >> $F/truncated.so
  touch $F/.done
fi
