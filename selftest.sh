#!/bin/bash
# ./selftest.sh <patch.diff> <Cxx> [tier]   apply a seeded change to /repo, run the check, revert. Expect exit 1.
set -u
patch="$(realpath "$1")"; prop="$2"; tier="${3:-quick}"
git -C /repo diff --quiet || { echo "/repo has local changes; refusing"; exit 2; }
git -C /repo apply "$patch" || { echo "patch does not apply"; exit 2; }
/verif/check "$prop" "$tier" > /tmp/selftest.$$.out 2>&1; rc=$?
git -C /repo checkout -- . ; git -C /repo clean -fdq -- src tests 2>/dev/null
grep -E "VIOLATION|KNOWN-FINDING|MACHINERY|^C[0-9]+ " /tmp/selftest.$$.out | head -12
rm -f /tmp/selftest.$$.out
echo "selftest $prop with $(basename $(dirname $patch))/$(basename $patch): exit=$rc"
exit $rc
